#!/usr/bin/env python3
# stdin: cbmc --json-ui output (pretty printed top-level array); stdout: the
# same without the "Unwinding loop"/"Not unwinding" status objects.
import sys

out = sys.stdout
buf = []
first = True
for line in sys.stdin:
    if line.startswith("  {"):
        buf = [line]
        continue
    if buf:
        buf.append(line)
        if line.startswith("  }"):
            txt = "".join(buf)
            buf = []
            if '"messageText": "Unwinding loop' in txt or \
                    '"messageText": "Not unwinding' in txt or \
                    '"messageText": "Unwinding recursion' in txt:
                continue
            body = txt.rstrip()
            if body.endswith(","):
                body = body[:-1]
            out.write(("" if first else ",\n") + body)
            first = False
        continue
    s = line.strip()
    if s == "[":
        out.write("[\n")
    elif s == "]":
        out.write("\n]\n")
    elif s:
        # unexpected top-level content: pass through
        out.write(line)
