# vp/driver.py -- build, run and classify CBMC harness instances for ft/ufw.
#
# python3 stdlib only.  See /verif/DESIGN.md section 2.
import concurrent.futures as cf
import hashlib
import importlib.util
import json
import os
import re
import resource
import shutil
import signal
import subprocess
import sys
import tempfile
import time

VERIF = os.path.dirname(os.path.dirname(os.path.abspath(__file__)))
REPO = os.environ.get("VP_REPO", "/repo")
HARNESS = os.path.join(VERIF, "harness")
EVIDENCE = os.environ.get("VP_EVIDENCE_DIR") or os.path.join(VERIF, "evidence")
REPLAYS = os.environ.get("VP_REPLAY_DIR") or os.path.join(VERIF, "replays")
KNOWN = os.path.join(VERIF, "known-findings.txt")

BASE_DEFS = ["-std=gnu99", "-DNDEBUG", "-DSYSTEM_ENDIANNESS_LITTLE",
             "-DUFW_USE_BUILTIN_SWAP", "-D_DEFAULT_SOURCE"]

LEVEL = "model_checking"


def log(*a):
    print(*a, flush=True)


def toolchain_inc():
    p = os.path.join(REPO, "_build", "include")
    if os.path.exists(os.path.join(p, "ufw", "toolchain.h")):
        return p
    return os.path.join(HARNESS, "fallback")


def include_flags():
    return ["-I" + os.path.join(REPO, "include"), "-I" + toolchain_inc(),
            "-I" + os.path.join(HARNESS, "include"), "-I" + HARNESS,
            "-I" + os.path.join(REPO, "src"), "-I" + REPO]


def _limits(mem_gb):
    def f():
        os.setsid()
        if mem_gb:
            b = int(mem_gb * (1 << 30))
            try:
                resource.setrlimit(resource.RLIMIT_AS, (b, b))
            except Exception:
                pass
    return f


def _q(x):
    import shlex
    return shlex.quote(x)


def run(cmd, timeout=None, mem_gb=None, cwd=None, stdout_path=None, env=None):
    """Run cmd; returns (rc, out, err, wall, peak_rss_mb). rc None == timeout."""
    t0 = time.time()
    if stdout_path:
        # cbmc --json-ui --verbosity 8: drop the per-iteration "Unwinding
        # loop" messages on the fly (they can be hundreds of MB)
        shcmd = " ".join(_q(c) for c in cmd) + \
            " | python3 " + _q(os.path.join(VERIF, "vp", "jsonfilter.py")) + \
            " > " + _q(stdout_path) + "; exit ${PIPESTATUS[0]}"
        p = subprocess.Popen(["bash", "-c", shcmd], stdout=subprocess.PIPE,
                             stderr=subprocess.PIPE, cwd=cwd,
                             preexec_fn=_limits(mem_gb), env=env)
    else:
        p = subprocess.Popen(cmd, stdout=subprocess.PIPE,
                             stderr=subprocess.PIPE, cwd=cwd,
                             preexec_fn=_limits(mem_gb), env=env)
    try:
        out, err = p.communicate(timeout=timeout)
        rc = p.returncode
    except subprocess.TimeoutExpired:
        try:
            os.killpg(p.pid, signal.SIGKILL)
        except Exception:
            pass
        out, err = p.communicate()
        rc = None
    if stdout_path:
        out = b""
    try:
        ru = resource.getrusage(resource.RUSAGE_CHILDREN)
        rss = ru.ru_maxrss / 1024.0
    except Exception:
        rss = 0.0
    return rc, (out or b"").decode("utf-8", "replace"), \
        (err or b"").decode("utf-8", "replace"), time.time() - t0, rss


# --------------------------------------------------------------------------
# known findings

def load_known():
    """-> (findings {(prop,key): text}, fixed [(prop, text)])"""
    findings, fixed = {}, []
    if not os.path.exists(KNOWN):
        return findings, fixed
    for line in open(KNOWN):
        line = line.strip()
        if not line or line.startswith("#"):
            continue
        m = re.match(r"finding:\s+property=(\S+)\s+key=(\S+)\s*(.*)", line)
        if m:
            findings[(m.group(1), m.group(2))] = m.group(3)
            continue
        m = re.match(r"fixed:\s+property=(\S+)\s*(.*)", line)
        if m:
            fixed.append((m.group(1), m.group(2)))
    return findings, fixed


# --------------------------------------------------------------------------
# instance description

class Inst(dict):
    """name, harness, units, defines, unwind, default_unwind, backend, timeout,
    fp_removal, object_bits, cflags, replay_units, kf_keys, notes ..."""

    def __getattr__(self, k):
        try:
            return self[k]
        except KeyError:
            raise AttributeError(k)


def mk(name, harness, units=(), defines=None, unwind=None, default_unwind=2,
       backend="cadical", timeout=1200, fp_removal=False, object_bits=None,
       cflags=(), replay_units=None, kf_keys=(), mem_gb=14, extra_cbmc=(),
       replay_timeout=20, no_models=False, encoded_units=None, desc="",
       hang_is_violation=False, replay_cflags=()):
    return Inst(name=name, harness=harness, units=list(units),
                defines=dict(defines or {}), unwind=dict(unwind or {}),
                default_unwind=default_unwind, backend=backend,
                timeout=timeout, fp_removal=fp_removal,
                object_bits=object_bits, cflags=list(cflags),
                replay_units=list(replay_units) if replay_units is not None
                else None, kf_keys=list(kf_keys), mem_gb=mem_gb,
                extra_cbmc=list(extra_cbmc), replay_timeout=replay_timeout,
                no_models=no_models,
                encoded_units=list(encoded_units or units), desc=desc,
                hang_is_violation=hang_is_violation,
                replay_cflags=list(replay_cflags))


def def_flags(defines):
    out = []
    for k, v in sorted(defines.items()):
        out.append("-D%s" % k if v is None else "-D%s=%s" % (k, v))
    return out


# --------------------------------------------------------------------------
# trace -> C initialiser

def _int_from(v):
    b = v.get("binary")
    if b is None:
        d = v.get("data")
        if d in ("true", "TRUE"):
            return 1, False
        if d in ("false", "FALSE"):
            return 0, False
        return int(d), False
    t = v.get("type", "")
    n = int(b, 2)
    signed = not re.search(r"unsigned|uint|_Bool|bool|(?<!s)size_t|char16|char32", t)
    if v.get("name") in ("boolean",):
        signed = False
    if signed and b[0] == "1" and len(b) > 1:
        n -= 1 << len(b)
    return n, signed


def c_literal(n):
    if n == -(1 << 63):
        return "(-9223372036854775807LL-1)"
    if n < 0:
        return "%dLL" % n
    if n > (1 << 63) - 1:
        return "%dULL" % n
    return "%dLL" % n if n > 0x7fffffff else "%d" % n


def value_to_c(v, indent=1):
    pad = "  " * indent
    name = v.get("name")
    if name == "struct":
        parts = []
        for m in v.get("members", []):
            mn = m.get("name", "")
            if mn.startswith("$pad") or mn.startswith("$"):
                continue
            parts.append("%s.%s = %s" % (pad, mn, value_to_c(m["value"],
                                                            indent + 1)))
        return "{\n" + ",\n".join(parts) + "\n" + "  " * (indent - 1) + "}"
    if name == "union":
        m = v.get("member") or (v.get("members") or [None])[0]
        if isinstance(m, dict) and "value" in m:
            return "{ .%s = %s }" % (m.get("name"), value_to_c(m["value"],
                                                                indent + 1))
        return "{0}"
    if name == "array":
        parts = []
        for e in v.get("elements", []):
            parts.append("[%d] = %s" % (e["index"], value_to_c(e["value"],
                                                               indent + 1)))
        return "{ " + ", ".join(parts) + " }"
    if name in ("integer", "boolean", "unknown") or "binary" in v or \
            "data" in v:
        if name == "float":
            raise ValueError("float leaves not supported in vp_in")
        if name == "pointer":
            return "0"
        n, _ = _int_from(v)
        return c_literal(n)
    if name == "pointer":
        return "0"
    raise ValueError("cannot convert trace value: %r" % (name,))


def extract_input(trace):
    """Find the value of the harness input struct in a CBMC JSON trace: the
    non-hidden whole-struct assignment to the return value of nondet_vp_in()
    (hidden assignments to the same symbol are declarations with junk)."""
    for st in trace:
        if st.get("stepType") != "assignment" or st.get("hidden"):
            continue
        if st.get("lhs") == "return_value_nondet_vp_in" and \
                st.get("value", {}).get("name") == "struct":
            return st["value"]
    for st in trace:
        if st.get("stepType") == "assignment" and not st.get("hidden") and \
                st.get("value", {}).get("name") == "struct" and \
                "nondet_vp_in" in st.get("lhs", ""):
            return st["value"]
    return None


# --------------------------------------------------------------------------
# one instance

class Outcome(dict):
    pass


def loops_of(gb, tmp):
    rc, out, err, _, _ = run(["goto-instrument", "--show-loops", gb],
                             timeout=120)
    loops = {}
    for m in re.finditer(r"^Loop (\S+):", out, re.M):
        lid = m.group(1)
        fn = lid.rsplit(".", 1)[0]
        loops.setdefault(fn, []).append(lid)
    return loops


def reachable_repo_functions(gb):
    rc, out, err, _, _ = run(["goto-instrument", "--reachable-call-graph", gb],
                             timeout=120)
    fns = set()
    for m in re.finditer(r"^(\S+) -> (\S+)", out, re.M):
        fns.add(m.group(1))
        fns.add(m.group(2))
    return sorted(f for f in fns if not f.startswith("__CPROVER"))


def build_goto(inst, tmp, extra_defs):
    gb = os.path.join(tmp, inst.name + ".gb")
    srcs = [os.path.join(HARNESS, inst.harness)]
    if not inst.no_models:
        srcs.append(os.path.join(HARNESS, "lib", "libc_models.c"))
    srcs += [os.path.join(VERIF, u[6:]) if u.startswith("verif:") else os.path.join(REPO, u) for u in inst.units]
    cmd = ["goto-cc"] + BASE_DEFS + include_flags() + inst.cflags + \
        def_flags(inst.defines) + extra_defs + \
        ["--function", "harness", "-o", gb] + srcs
    rc, out, err, wall, _ = run(cmd, timeout=300, cwd=tmp)
    if rc != 0:
        return None, "goto-cc failed: " + (err or out)[-2000:]
    if inst.fp_removal:
        gb2 = os.path.join(tmp, inst.name + ".fp.gb")
        rc, out, err, _, _ = run(["goto-instrument",
                                  "--value-set-fi-fp-removal", gb, gb2],
                                 timeout=600)
        if rc == 0 and os.path.exists(gb2):
            gb = gb2
        else:
            return None, "fp-removal failed: " + (err or out)[-1000:]
    return gb, None


def cbmc_cmd(inst, gb, loops):
    cmd = ["cbmc", gb, "--function", "harness", "--unwinding-assertions",
           "--drop-unused-functions", "--json-ui", "--trace",
           "--unwind", str(inst.default_unwind),
           "--no-malloc-may-fail", "--verbosity", "8"]
    us = []
    unknown = []
    for fn, b in inst.unwind.items():
        if isinstance(b, dict):
            for idx, bb in b.items():
                us.append("%s.%s:%d" % (fn, idx, bb))
            continue
        if fn in loops:
            for lid in loops[fn]:
                us.append("%s:%d" % (lid, b))
        else:
            unknown.append(fn)
    if us:
        cmd += ["--unwindset", ",".join(us)]
    if inst.object_bits:
        cmd += ["--object-bits", str(inst.object_bits)]
    be = inst.backend
    if be == "kissat":
        cmd += ["--external-sat-solver", "kissat"]
    elif be in ("cadical", "minisat2", "glucose"):
        cmd += ["--sat-solver", be]
    elif be == "z3":
        cmd += ["--z3"]
    elif be == "cvc5":
        cmd += ["--cvc5"]
    cmd += inst.extra_cbmc
    return cmd, unknown


def parse_cbmc(outpath):
    try:
        data = json.load(open(outpath))
    except Exception as e:
        return None, "cannot parse cbmc output: %s" % e
    res = {"props": [], "status": None, "vars": None, "clauses": None,
           "solver_s": 0.0, "errors": [], "steps": None}
    for el in data:
        if not isinstance(el, dict):
            continue
        if "result" in el:
            res["props"] = el["result"]
        if "cProverStatus" in el:
            res["status"] = el["cProverStatus"]
        mt = el.get("messageText")
        if mt:
            m = re.search(r"(\d+) variables, (\d+) clauses", mt)
            if m:
                res["vars"] = max(res["vars"] or 0, int(m.group(1)))
                res["clauses"] = max(res["clauses"] or 0, int(m.group(2)))
            m = re.search(r"Runtime Solver: ([0-9.eE+-]+)s", mt)
            if m:
                res["solver_s"] += float(m.group(1))
            m = re.search(r"size of program expression: (\d+) steps", mt)
            if m:
                res["steps"] = int(m.group(1))
            if el.get("messageType") == "ERROR":
                res["errors"].append(mt)
    return res, None


def build_replay(inst, tmp, input_h, extra_defs, tag):
    exe = os.path.join(tmp, "%s-%s.replay" % (inst.name, tag))
    units = inst.replay_units if inst.replay_units is not None else inst.units
    srcs = [os.path.join(HARNESS, inst.harness)] + \
        [os.path.join(REPO, u) for u in units]
    cflags = [f for f in inst.cflags if f != "-D__NO_CTYPE"]
    # -ftrivial-auto-var-init=pattern: an object the code under test forgot to
    # initialise is "any value" for cbmc; on the real build it would be whatever
    # the stack held. A repeating 0xFE pattern makes such counterexamples
    # reproducible instead of depending on stack garbage.
    cmd = ["gcc", "-O0", "-g", "-fsanitize=address,undefined",
           "-fno-sanitize-recover=undefined", "-fno-omit-frame-pointer",
           "-ftrivial-auto-var-init=pattern", "-w"] + BASE_DEFS + include_flags() + cflags + inst.replay_cflags + \
        def_flags(inst.defines) + extra_defs + \
        ["-DVP_REPLAY", '-DVP_INPUT_FILE="%s"' % input_h, "-o", exe] + srcs + \
        ["-lm"]
    rc, out, err, _, _ = run(cmd, timeout=300, cwd=tmp)
    if rc != 0:
        return None, "replay build failed: " + (err or out)[-3000:]
    return exe, None


def run_replay(inst, exe):
    env = dict(os.environ)
    env["ASAN_OPTIONS"] = "detect_leaks=0:abort_on_error=0:exitcode=99"
    env["UBSAN_OPTIONS"] = "print_stacktrace=1:halt_on_error=1:exitcode=98"
    rc, out, err, wall, _ = run([exe], timeout=inst.replay_timeout, env=env)
    r = {"rc": rc, "out": out[-4000:], "err": err[-4000:],
         "violations": re.findall(r"^REPLAY-VIOLATION (\S+)", out, re.M),
         "witnessed": re.findall(r"^REPLAY-WITNESS (\S+)", out, re.M),
         "assume_failed": "REPLAY-ASSUME-FAILED" in out,
         "sanitizer": bool(re.search(r"AddressSanitizer|runtime error:|"
                                     r"UndefinedBehaviorSanitizer", err)),
         "timeout": rc is None,
         "signal": rc is not None and rc < 0}
    return r


def check_instance(prop, inst, tmp, tier, kf_exclude=(), kf_confirm=None,
                   keep_dir=None):
    """Runs one CBMC query (all harness assertions + witnesses at once).
    Returns an Outcome."""
    o = Outcome(name=inst.name, ok=False, inconclusive=None, violations=[],
                witnesses=[], witness_ok=0, proven=0, obligations=0,
                harness_proven=[], wall=0.0, solver_s=0.0, vars=None,
                clauses=None, steps=None, functions=[], replayed=0,
                samples=[], cmd="", confirm=kf_confirm, unwinding_failed=[],
                peak_rss_mb=0.0)
    t0 = time.time()
    extra = ["-DVP_KF_%s" % k for k in kf_exclude]
    tag = "main"
    if kf_confirm:
        extra = ["-DVP_KF_%s" % k for k in kf_exclude if k != kf_confirm] + \
            ["-DVP_KFC_%s" % kf_confirm]
        tag = "kfc-" + kf_confirm
    itmp = os.path.join(tmp, inst.name + "-" + tag)
    os.makedirs(itmp, exist_ok=True)
    gb, err = build_goto(inst, itmp, extra)
    if gb is None:
        o["inconclusive"] = err
        o["wall"] = time.time() - t0
        return o
    loops = loops_of(gb, itmp)
    o["functions"] = reachable_repo_functions(gb)
    cmd, unknown = cbmc_cmd(inst, gb, loops)
    o["cmd"] = " ".join(cmd)
    outp = os.path.join(itmp, "cbmc.json")
    rc, _, err, wall, rss = run(cmd, timeout=inst.timeout, mem_gb=inst.mem_gb,
                                stdout_path=outp, cwd=itmp)
    o["peak_rss_mb"] = rss
    if rc is None:
        o["inconclusive"] = "cbmc timeout after %ds" % inst.timeout
        o["wall"] = time.time() - t0
        return o
    res, perr = parse_cbmc(outp)
    if res is None:
        o["inconclusive"] = "%s (rc=%s, stderr=%s)" % (perr, rc, err[-500:])
        o["wall"] = time.time() - t0
        return o
    if not res["props"]:
        o["inconclusive"] = "cbmc produced no property results (rc=%s): %s %s" \
            % (rc, "; ".join(res["errors"])[-800:], err[-400:])
        o["wall"] = time.time() - t0
        return o
    o["vars"], o["clauses"], o["solver_s"], o["steps"] = \
        res["vars"], res["clauses"], res["solver_s"], res["steps"]
    o["obligations"] = len(res["props"])
    failed_real = []
    failed_unwind = []
    wit_failed = []
    wit_all = []
    for p in res["props"]:
        d = p.get("description", "")
        st = p.get("status")
        is_w = d.startswith("WITNESS:")
        if is_w:
            wit_all.append(d)
        if st == "SUCCESS":
            if not is_w:
                o["proven"] += 1
                if d.startswith("VP:"):
                    o["harness_proven"].append(d[3:])
        elif st == "FAILURE":
            if is_w:
                wit_failed.append(p)
            elif "unwinding assertion" in d or p.get("property", "").find(
                    ".unwind.") >= 0 or ".recursion" in p.get("property", ""):
                failed_unwind.append(p)
            else:
                failed_real.append(p)
        else:
            o["inconclusive"] = "property %s has status %s" % (
                p.get("property"), st)
    o["witnesses"] = sorted(set(wit_all))
    # ---- witnesses must FAIL in CBMC and replay on the real build
    vacuous = [w for w in set(wit_all)
               if w not in set(p["description"] for p in wit_failed)]
    if vacuous and not kf_confirm:
        o["inconclusive"] = "vacuous: witness(es) unreachable: %s" % \
            ", ".join(sorted(vacuous))
    nrep = 0
    for p in wit_failed:
        if kf_confirm:
            break
        label = p["description"][len("WITNESS:"):]
        val = extract_input(p.get("trace", []))
        if val is None:
            o["inconclusive"] = "no input struct in witness trace " + label
            continue
        try:
            init = value_to_c(val)
        except Exception as e:
            o["inconclusive"] = "trace conversion failed: %s" % e
            continue
        ih = os.path.join(itmp, "wit-%d.h" % nrep)
        open(ih, "w").write("#define VP_REPLAY_INIT %s\n" %
                            init.replace("\n", " \\\n"))
        exe, berr = build_replay(inst, itmp, ih, extra, "wit%d" % nrep)
        nrep += 1
        if exe is None:
            o["inconclusive"] = berr
            continue
        r = run_replay(inst, exe)
        if label in r["witnessed"] and not r["assume_failed"]:
            o["witness_ok"] += 1
            o["replayed"] += 1
            if len(o["samples"]) < 3:
                o["samples"].append({"instance": inst.name,
                                     "witness": label,
                                     "input": compact_value(val)})
        else:
            o["inconclusive"] = ("witness %s did not replay on the real build "
                                 "(rc=%s out=%s err=%s)") % (
                label, r["rc"], r["out"][-300:], r["err"][-300:])
    # ---- real failures: replay each distinct one
    seen = set()
    replay_cache = {}
    max_replays = int(os.environ.get("VP_MAX_REPLAYS", "12"))
    for p in failed_real + failed_unwind:
        d = p.get("description", "")
        key = (d, p.get("sourceLocation", {}).get("function"),
               p.get("sourceLocation", {}).get("line"))
        if key in seen:
            continue
        seen.add(key)
        is_unw = p in failed_unwind
        val = extract_input(p.get("trace", []))
        v = {"label": d, "property": p.get("property"),
             "loc": "%s:%s" % (p.get("sourceLocation", {}).get("file"),
                               p.get("sourceLocation", {}).get("line")),
             "function": p.get("sourceLocation", {}).get("function"),
             "reproduced": False, "replay": None, "unwinding": is_unw,
             "detail": ""}
        if val is None:
            v["detail"] = "no input struct in trace"
            o["violations"].append(v)
            continue
        try:
            init = value_to_c(val)
        except Exception as e:
            v["detail"] = "trace conversion failed: %s" % e
            o["violations"].append(v)
            continue
        os.makedirs(REPLAYS, exist_ok=True)
        h = hashlib.sha1((prop + inst.name + d + init).encode()).hexdigest()[:10]
        rp = os.path.join(REPLAYS, "%s-%s-%s.h" % (prop, inst.name, h))
        with open(rp, "w") as f:
            f.write("/* replay input for %s instance %s\n * failed: %s (%s)\n"
                    " * defines: %s\n * run: ./check %s --replay %s\n */\n" % (
                        prop, inst.name, d, v["loc"],
                        " ".join(def_flags(inst.defines) + extra), prop, rp))
            f.write("/* VP-INSTANCE: %s */\n" % inst.name)
            f.write("/* VP-EXTRA: %s */\n" % " ".join(extra))
            f.write("#define VP_REPLAY_INIT %s\n" % init.replace("\n", " \\\n"))
        v["replay"] = rp
        if init in replay_cache:
            r = replay_cache[init]
        elif len(replay_cache) >= max_replays:
            # many failing properties usually share one root cause: the first
            # max_replays distinct inputs are re-executed, the rest are listed
            v["detail"] = "replay: not run (cap of %d distinct inputs per instance reached)" % max_replays
            v["reproduced"] = any(x["reproduced"] for x in o["violations"])
            v["capped"] = True
            try:
                os.remove(rp)
            except Exception:
                pass
            v["replay"] = next((x["replay"] for x in o["violations"] if x["reproduced"]), None)
            o["violations"].append(v)
            continue
        else:
            exe, berr = build_replay(inst, itmp, rp, extra, "v" + h)
            if exe is None:
                v["detail"] = berr
                o["violations"].append(v)
                continue
            r = run_replay(inst, exe)
            replay_cache[init] = r
        if r["assume_failed"]:
            v["detail"] = "replay: trace does not satisfy harness assumptions"
        elif r["violations"] or r["sanitizer"] or r["signal"]:
            v["reproduced"] = True
            v["detail"] = "replay: " + (
                "violations=%s " % ",".join(r["violations"]) if r["violations"]
                else "") + ("sanitizer/signal rc=%s: %s" % (
                    r["rc"], first_san_line(r["err"])) if (r["sanitizer"] or
                                                          r["signal"]) else "")
        elif r["timeout"] and (inst.hang_is_violation or is_unw):
            v["reproduced"] = bool(inst.hang_is_violation)
            v["detail"] = "replay: real code did not terminate within %ds" % \
                inst.replay_timeout
        else:
            v["detail"] = "replay: not reproduced (rc=%s out=%s)" % (
                r["rc"], r["out"][-200:])
        if not v["reproduced"] and not os.environ.get("VP_KEEP_REPLAYS"):
            # keep unconfirmed inputs only under the scratch dir
            try:
                shutil.move(rp, os.path.join(itmp, os.path.basename(rp)))
                v["replay"] = None
            except Exception:
                pass
        o["violations"].append(v)
    if unknown:
        o.setdefault("notes", []).append(
            "unwind bounds given for functions without loops in this tree: " +
            ", ".join(unknown))
    o["unwinding_failed"] = [v for v in o["violations"] if v["unwinding"]]
    o["ok"] = (not o["violations"]) and o["inconclusive"] is None
    o["wall"] = time.time() - t0
    if keep_dir:
        try:
            shutil.copy(outp, os.path.join(keep_dir, inst.name + "-" + tag +
                                           ".cbmc.json"))
        except Exception:
            pass
    return o


def first_san_line(err):
    for l in err.splitlines():
        if "ERROR: AddressSanitizer" in l or "runtime error:" in l or \
                "SUMMARY" in l:
            return l.strip()[:300]
    return err.strip().splitlines()[-1][:300] if err.strip() else ""


def compact_value(v):
    name = v.get("name")
    if name == "struct":
        return {m["name"]: compact_value(m["value"]) for m in
                v.get("members", []) if not m.get("name", "").startswith("$")}
    if name == "array":
        return [compact_value(e["value"]) for e in v.get("elements", [])]
    if name == "union":
        m = v.get("member")
        if isinstance(m, dict):
            return {m.get("name"): compact_value(m.get("value", {}))}
        return "union"
    try:
        return _int_from(v)[0]
    except Exception:
        return v.get("data")


# --------------------------------------------------------------------------
# property level

def load_spec(prop):
    path = os.path.join(VERIF, "specs", prop + ".py")
    if not os.path.exists(path):
        raise SystemExit("no spec for %s" % prop)
    sp = importlib.util.spec_from_file_location("spec_" + prop, path)
    mod = importlib.util.module_from_spec(sp)
    mod.mk = mk
    sp.loader.exec_module(mod)
    return mod


def ncpu():
    try:
        return len(os.sched_getaffinity(0))
    except Exception:
        return os.cpu_count() or 4


def check_property(prop, tier, only=None, keep=None, jobs=None):
    t0 = time.time()
    seed = int(os.environ.get("VERIF_SEED", "0") or 0)
    spec = load_spec(prop)
    insts = spec.instances(tier)
    if only:
        insts = [i for i in insts if i.name in only or
                 any(re.fullmatch(o, i.name) for o in only)]
    if seed:
        import random
        random.Random(seed).shuffle(insts)
    findings, fixed = load_known()
    my_findings = {k: t for (p, k), t in findings.items() if p == prop}
    tmp = tempfile.mkdtemp(prefix="vp-%s-" % prop,
                           dir=os.environ.get("VP_TMPDIR") or
                           os.environ.get("TMPDIR") or None)
    keep_dir = None
    if keep:
        keep_dir = keep
        os.makedirs(keep_dir, exist_ok=True)
    jobs_list = []
    for inst in insts:
        ex = [k for k in inst.kf_keys if k in my_findings]
        jobs_list.append((inst, tuple(ex), None))
        for k in ex:
            jobs_list.append((inst, tuple(ex), k))
    outcomes = []
    nj = jobs or int(os.environ.get("VP_JOBS", "0") or 0) or max(1, ncpu())
    try:
        with cf.ThreadPoolExecutor(max_workers=nj) as pool:
            futs = {pool.submit(check_instance, prop, i, tmp, tier, ex, kc,
                                keep_dir): (i, ex, kc)
                    for (i, ex, kc) in jobs_list}
            for f in cf.as_completed(futs):
                i, ex, kc = futs[f]
                try:
                    o = f.result()
                except Exception as e:
                    import traceback
                    o = Outcome(name=i.name, ok=False, confirm=kc,
                                inconclusive="driver exception: %s\n%s" % (
                                    e, traceback.format_exc()),
                                violations=[], witnesses=[], witness_ok=0,
                                proven=0, obligations=0, harness_proven=[],
                                wall=0.0, solver_s=0.0, vars=None,
                                clauses=None, steps=None, functions=[],
                                replayed=0, samples=[], cmd="",
                                unwinding_failed=[], peak_rss_mb=0.0)
                o["kf_excluded"] = list(ex)
                outcomes.append(o)
                st = "ok" if o["ok"] else ("INCONCLUSIVE" if o["inconclusive"]
                                           and not o["violations"] else "FAIL")
                log("[%s] %-34s %-12s %5.1fs  proven %d/%d  witnesses %d/%d  "
                    "vars=%s%s" % (prop, o["name"] + ("(confirm %s)" % kc if kc
                                                     else ""), st, o["wall"],
                                  o["proven"], o["obligations"] -
                                  len(o["witnesses"]), o["witness_ok"],
                                  len(o["witnesses"]), o["vars"],
                                  ("  kf-excluded=" + ",".join(ex)) if ex
                                  else ""))
                if o["inconclusive"]:
                    log("    inconclusive: %s" % o["inconclusive"][:1500])
                for v in o["violations"]:
                    log("    cbmc FAILURE %s @%s [%s] reproduced=%s %s" % (
                        v["label"], v["loc"], v["function"], v["reproduced"],
                        v["detail"][:400]))
        # instances killed for lack of memory while many ran side by side (rc=137 /
        # "out of memory") are run again, one at a time
        retry = [o for o in outcomes if o.get("inconclusive") and not o["violations"] and
                 re.search(r"rc=137|rc=-9|[Oo]ut of memory|cannot parse cbmc output", o["inconclusive"])]
        for o in retry:
            job = next(((i, ex, kc) for (i, ex, kc) in jobs_list
                        if i.name == o["name"] and kc == o.get("confirm")), None)
            if job is None:
                continue
            i, ex, kc = job
            log("[%s] %s: retrying alone (was: %s)" % (prop, i.name, o["inconclusive"][:80]))
            try:
                o2 = check_instance(prop, i, tmp, tier, ex, kc, keep_dir)
            except Exception as e:
                continue
            o2["kf_excluded"] = list(ex)
            outcomes[outcomes.index(o)] = o2
            log("[%s] %-34s %-12s %5.1fs  proven %d/%d (retry)" % (
                prop, o2["name"], "ok" if o2["ok"] else "NOT-OK", o2["wall"], o2["proven"],
                o2["obligations"] - len(o2["witnesses"])))
            if o2["inconclusive"]:
                log("    inconclusive: %s" % o2["inconclusive"][:600])
    finally:
        if not os.environ.get("VP_KEEP_TMP"):
            shutil.rmtree(tmp, ignore_errors=True)
        else:
            log("scratch kept at", tmp)

    # ---------------- verdict
    exit_code = 0
    lines = []
    nviol = 0
    known_seen = set()
    for o in outcomes:
        if o.get("confirm"):
            k = o["confirm"]
            hit = [v for v in o["violations"] if v["reproduced"]]
            if hit:
                known_seen.add(k)
                lines.append("KNOWN-FINDING: property=%s key=%s %s" % (
                    prop, k, my_findings.get(k, "")))
            else:
                lines.append("NOTE: known finding property=%s key=%s no longer"
                             " reproduces (entry is stale): %s" % (
                                 prop, k, o.get("inconclusive") or ""))
            continue
        for v in o["violations"]:
            if v["reproduced"]:
                nviol += 1
                exit_code = 1
                lines.append("VIOLATION property=%s replay=%s instance=%s "
                             "assert=%s %s" % (prop, v["replay"], o["name"],
                                               v["label"].replace(" ", "_"),
                                               v["detail"][:300]))
            else:
                if exit_code == 0:
                    exit_code = 2
                kind = "UNWINDING-BOUND-EXCEEDED" if v["unwinding"] else \
                    "UNCONFIRMED-COUNTEREXAMPLE"
                lines.append("%s property=%s instance=%s assert=%s loc=%s %s"
                             % (kind, prop, o["name"], v["label"], v["loc"],
                                v["detail"][:300]))
        if o["inconclusive"] and exit_code == 0:
            exit_code = 2
            lines.append("INCONCLUSIVE property=%s instance=%s %s" % (
                prop, o["name"], o["inconclusive"][:400]))
    if not outcomes:
        exit_code = 2
        lines.append("INCONCLUSIVE property=%s no instances" % prop)
    # de-duplicate known-finding lines
    seen = set()
    for l in lines:
        if l not in seen:
            log(l)
            seen.add(l)
    wall = time.time() - t0
    write_evidence(prop, tier, seed, spec, insts, outcomes, wall, nviol,
                   exit_code, sorted(known_seen), my_findings, partial=bool(only))
    log("[%s] tier=%s exit=%d wall=%.1fs instances=%d" % (
        prop, tier, exit_code, wall, len(outcomes)))
    return exit_code


def write_evidence(prop, tier, seed, spec, insts, outcomes, wall, nviol,
                   exit_code, known_seen, my_findings, partial=False):
    global EVIDENCE
    if partial and not os.environ.get("VP_EVIDENCE_DIR"):
        # a run restricted with --only is a development aid: it must not replace
        # the evidence of the last complete run
        EVIDENCE = os.path.join(VERIF, "evidence", "partial")
    os.makedirs(EVIDENCE, exist_ok=True)
    mains = [o for o in outcomes if not o.get("confirm")]
    obligations = sum(o["obligations"] - len(o["witnesses"]) for o in mains)
    discharged = sum(o["proven"] for o in mains)
    labels = set()
    for o in mains:
        if o["witness_ok"] == len(o["witnesses"]) and o["witnesses"]:
            for l in o["harness_proven"]:
                labels.add(l)
    samples = []
    for o in mains:
        samples.extend(o["samples"])
    samples = samples[:8]
    if not samples:
        samples = [{"note": "no witness trace was produced by this run"}]
    funcs = sorted(set(f for o in mains for f in o["functions"]))
    units = sorted(set(u for i in insts for u in i.encoded_units))
    info = getattr(spec, "INFO", {})
    ev = {
        "property_id": prop,
        "tier": tier,
        "seed": seed,
        "level": LEVEL,
        "wall_s": round(wall, 2),
        "violations": nviol,
        "assumptions": list(info.get("assumptions", [])),
        "coverage": {
            "evaluations": len(outcomes),
            "distinct_nontrivial": len(labels),
            "rule": ("one evaluation = one CBMC query (goto program compiled "
                     "from /repo's working tree; all harness assertions, all "
                     "CBMC-generated memory-safety/overflow checks and all "
                     "unwinding assertions of one instance decided by the SAT "
                     "back end, plus its reachability witnesses). "
                     "distinct_nontrivial = number of distinct harness-level "
                     "assertion labels proven in instances whose witnesses "
                     "were all shown reachable by the solver AND replayed on "
                     "the gcc/ASan build of the real sources."),
            "samples": samples,
            "obligations": obligations,
            "discharged": discharged,
            "traces_validated_against_impl": sum(o["replayed"] for o in mains),
            "checker_cmd": (mains[0]["cmd"] if mains else ""),
            "trusted_base": ["cbmc 6.11.0 (goto-cc C front end, symex, "
                             "bit-blasting)", "SAT back end per instance",
                             "harness libc byte-loop models "
                             "(harness/lib/libc_models.c)",
                             "harness stubs and reference models listed under "
                             "'stubs'", "gcc + ASan/UBSan for replay"],
            "exhaustive": False,
            "explanation": info.get("explanation", ""),
            "units_encoded": units,
            "functions_encoded": funcs,
            "bounds": info.get("bounds", {}).get(tier, info.get("bounds", {})),
            "outside_bounds": info.get("outside_bounds", []),
            "stubs": info.get("stubs", []),
            "solver_time_s": round(sum(o["solver_s"] for o in outcomes), 2),
            "exit_code": exit_code,
            "known_findings_reported": known_seen,
            "instances": [{
                "name": o["name"] + ("#confirm-" + o["confirm"]
                                     if o.get("confirm") else ""),
                "result": ("proved" if o["ok"] else
                           ("inconclusive: " + o["inconclusive"][:200]
                            if o["inconclusive"] and not o["violations"]
                            else "failed")),
                "obligations": o["obligations"] - len(o["witnesses"]),
                "proved": o["proven"],
                "witnesses": len(o["witnesses"]),
                "witnesses_replayed": o["witness_ok"],
                "sat_variables": o["vars"], "sat_clauses": o["clauses"],
                "symex_steps": o["steps"],
                "solver_s": round(o["solver_s"], 2),
                "wall_s": round(o["wall"], 2),
                "backend": next((i.backend for i in insts
                                 if i.name == o["name"]), None),
                "defines": next((i.defines for i in insts
                                 if i.name == o["name"]), None),
                "unwind": next((dict(i.unwind, **{"*": i.default_unwind})
                                for i in insts if i.name == o["name"]), None),
                "kf_excluded": o.get("kf_excluded", []),
                "failed": [{"label": v["label"], "loc": v["loc"],
                            "reproduced": v["reproduced"],
                            "replay": v["replay"]} for v in o["violations"]],
            } for o in sorted(outcomes, key=lambda x: x["name"])],
        },
    }
    with open(os.path.join(EVIDENCE, prop + ".json"), "w") as f:
        json.dump(ev, f, indent=1, sort_keys=False)
        f.write("\n")


# --------------------------------------------------------------------------
# replay of a stored counterexample

def replay_file(prop, path):
    spec = load_spec(prop)
    txt = open(path).read()
    m = re.search(r"VP-INSTANCE: (\S+)", txt)
    e = re.search(r"VP-EXTRA: (.*) \*/", txt)
    extra = e.group(1).split() if e else []
    inst = None
    for tier in ("quick", "thorough"):
        for i in spec.instances(tier):
            if m and i.name == m.group(1):
                inst = i
                break
        if inst:
            break
    if inst is None:
        log("cannot find instance for replay file")
        return 2
    tmp = tempfile.mkdtemp(prefix="vp-replay-")
    try:
        exe, err = build_replay(inst, tmp, os.path.abspath(path), extra, "r")
        if exe is None:
            log(err)
            return 2
        r = run_replay(inst, exe)
        log(r["out"])
        log(r["err"])
        if r["violations"] or r["sanitizer"] or r["signal"] or \
                (r["timeout"] and inst.hang_is_violation):
            log("VIOLATION property=%s replay=%s" % (prop, path))
            return 1
        return 0
    finally:
        shutil.rmtree(tmp, ignore_errors=True)


def setup():
    ok = True
    for tool in ("cbmc", "goto-cc", "goto-instrument", "gcc", "kissat"):
        if not shutil.which(tool):
            log("missing tool:", tool)
            ok = False
    rc, out, err, _, _ = run(["cbmc", "--version"])
    log("cbmc", out.strip())
    log("toolchain.h from", toolchain_inc())
    os.makedirs(EVIDENCE, exist_ok=True)
    os.makedirs(REPLAYS, exist_ok=True)
    return 0 if ok else 1
