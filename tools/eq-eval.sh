#!/bin/bash
# tools/eq-eval.sh <Cxx> <dir with patch.diff NOTES.txt> : behaviour-preserving refactor; the quick check must stay silent (exit 0)
P=$1; SRC=$2
W=/tmp/eqev-$P
OUT=/verif/seeded/equivalent/$P
mkdir -p $OUT; cp $SRC/patch.diff $SRC/NOTES.txt $OUT/ 2>/dev/null
git -C /repo worktree remove --force $W >/dev/null 2>&1
git -C /repo worktree add --detach $W HEAD >/dev/null 2>&1
cmake -G Ninja -B $W/_build -S $W -DCMAKE_BUILD_TYPE=RelWithDebInfo >/dev/null 2>&1
git -C $W apply $OUT/patch.diff; arc=$?
cmake --build $W/_build >/dev/null 2>&1; brc=$?
notok=$( (cd $W/_build/test && for t in ./t-*; do timeout 300 $t; done) 2>&1 | grep -c '^not ok')
s=$(date +%s)
VP_REPO=$W VP_EVIDENCE_DIR=/tmp/eqev-$P.ev VP_REPLAY_DIR=/tmp/eqev-$P.rp timeout 3000 /verif/check $P --tier quick > /tmp/eqev-$P.log 2>&1
crc=$?; e=$(date +%s)
nv=$(grep -c '^VIOLATION' /tmp/eqev-$P.log)
first=$(grep -E '^(VIOLATION|INCONCLUSIVE|UNCONFIRMED|UNWINDING)' /tmp/eqev-$P.log | head -1 | cut -c1-300)
python3 - <<PY
import json
json.dump({"property":"$P","kind":"behaviour-preserving refactor (must NOT be reported)","patch_applies":$arc==0,"builds":$brc==0,
 "suite_not_ok":$notok,"check":{"exit":$crc,"violations":$nv,"wall_s":$((e-s)),"first":"""$first"""},"silent":$crc==0},
 open("$OUT/meta.json","w"),indent=1)
PY
echo "$P applies=$arc build=$brc not_ok=$notok check_exit=$crc violations=$nv wall=$((e-s))s $first"
git -C /repo worktree remove --force $W >/dev/null 2>&1; rm -rf /tmp/eqev-$P.ev /tmp/eqev-$P.rp
