#!/usr/bin/env python3
# Regenerates /verif/MANIFEST.json from the table below + specs present.
import json, os, sys
V = os.path.dirname(os.path.dirname(os.path.abspath(__file__)))
sys.path.insert(0, V)
props = [json.loads(l) for l in open(os.path.join(V, "properties.jsonl"))]

# per property: (level text, level note, technique, design ref)
CLAIMS = {}
exec(open(os.path.join(V, "tools", "claims.py")).read())

NA = {}
exec(open(os.path.join(V, "tools", "not_applicable.py")).read())

checks = []
na = []
for p in props:
    pid = p["id"]
    if pid in CLAIMS and os.path.exists(os.path.join(V, "specs", pid + ".py")):
        c = CLAIMS[pid]
        checks.append({
            "property_id": pid,
            "quick_cmd": "./check %s --tier quick" % pid,
            "thorough_cmd": "./check %s --tier thorough" % pid,
            "evidence_file": "/verif/evidence/%s.json" % pid,
            "replay_cmd_template": "./check %s --replay {path}" % pid,
            "engine": "cbmc",
            "level_claimed": {"category": "model_checking", "text": c["text"], "design_ref": c.get("ref", "DESIGN.md section 4 (%s)" % pid)},
            "level_note": c["note"],
            "technique": c.get("technique", "bounded symbolic execution of the real C sources with CBMC 6.11 (goto-cc from /repo's working tree), SAT back end decides all assertions within stated unwinding/size bounds; counterexamples replayed on a gcc+ASan/UBSan build"),
        })
    else:
        na.append({"property_id": pid, "reason": NA.get(pid, "check not built yet (work in progress in this round); no claim is made")})

m = {
    "version": 1,
    "setup_cmd": "./check --setup",
    "hooks": {
        "guard": "FT_UFW_VERIF",
        "enable": "none needed: harnesses reach static functions by #include-ing the real .c file into the harness translation unit; no source hooks exist in /repo",
        "baseline_off_cmd": "cmake --build /repo/_build && ctest --test-dir /repo/_build -j8 --timeout 900",
        "source_commits": [],
        "add_only": True,
    },
    "engines": [{"name": "cbmc", "path": "/verif/vp/driver.py", "serves_properties": [c["property_id"] for c in checks],
                 "kind_free_text": "CBMC 6.11.0 bounded model checker over goto programs compiled by goto-cc from /repo's current working tree; cadical/kissat SAT back ends; python3 driver builds, derives unwindsets from goto-instrument --show-loops, runs, replays counterexamples with gcc+ASan/UBSan"}],
    "checks": checks,
    "notes": open(os.path.join(V, "tools", "notes.txt")).read().strip(),
    "not_applicable": na,
}
json.dump(m, open(os.path.join(V, "MANIFEST.json"), "w"), indent=1)
print("checks:", [c["property_id"] for c in checks], "not_applicable:", [n["property_id"] for n in na])
