NA = NA
