#!/bin/bash
# tools/revert-check.sh : for every "fixed:" line of known-findings.txt, revert that commit in a scratch worktree
# and run the property's quick check against it; the check must report VIOLATION (exit 1).
# Output: one line per fix; results in /verif/seeded/reverted-fixes.txt
cd /verif
out=/verif/seeded/reverted-fixes.txt
: > $out.tmp
grep '^fixed:' known-findings.txt | while read -r _ prop commit rest; do
  p=${prop#property=}
  W=/tmp/rv-$p-$commit
  git -C /repo worktree remove --force $W >/dev/null 2>&1
  git -C /repo worktree add --detach $W HEAD >/dev/null 2>&1
  if ! git -C $W revert --no-commit $commit >/dev/null 2>&1; then
    echo "$p $commit revert-conflict (a later fix touches the same lines) -- skipped" | tee -a $out.tmp
    git -C /repo worktree remove --force $W >/dev/null 2>&1
    continue
  fi
  s=$(date +%s)
  VP_REPO=$W VP_EVIDENCE_DIR=/tmp/rv-evidence VP_REPLAY_DIR=/tmp/rv-replays VP_JOBS=8 timeout 3000 ./check $p --tier quick > /tmp/rv-$p-$commit.log 2>&1
  rc=$?
  e=$(date +%s)
  nv=$(grep -c '^VIOLATION' /tmp/rv-$p-$commit.log)
  echo "$p $commit check_exit=$rc violations=$nv wall=$((e-s))s :: $(echo $rest | cut -c1-110)" | tee -a $out.tmp
  git -C /repo worktree remove --force $W >/dev/null 2>&1
done
mv $out.tmp $out
rm -rf /tmp/rv-evidence /tmp/rv-replays
