#!/bin/bash
# tools/seed-sibling.sh <Cxx> <variant> <Cyy> : run the quick check of a sibling property Cyy against seed Cxx-variant
P=$1; V=$2; S=$3
W=/tmp/sib-$P-$V-$S
git -C /repo worktree remove --force $W >/dev/null 2>&1
git -C /repo worktree add --detach $W HEAD >/dev/null 2>&1
git -C $W apply /verif/seeded/$P-$V/patch.diff || exit 2
s=$(date +%s)
VP_REPO=$W VP_EVIDENCE_DIR=$W.ev VP_REPLAY_DIR=$W.rp timeout 3000 /verif/check $S --tier quick > $W.log 2>&1
rc=$?; e=$(date +%s)
nv=$(grep -c '^VIOLATION' $W.log); first=$(grep '^VIOLATION' $W.log | head -1 | cut -c1-260)
python3 - <<PY
import json
p='/verif/seeded/$P-$V/meta.json'
m=json.load(open(p))
m.setdefault('sibling_checks',{})['$S']={"exit":$rc,"violations":$nv,"wall_s":$((e-s)),"first":"""$first"""}
if $rc==1 and $nv>0 and not m['detected']:
    m['detected_by']="sibling check $S (quick tier); the property's own check does not exercise the configuration this change needs"
json.dump(m,open(p,'w'),indent=1)
PY
echo "$P-$V vs $S: exit=$rc violations=$nv wall=$((e-s))s"
git -C /repo worktree remove --force $W >/dev/null 2>&1; rm -rf $W.ev $W.rp
