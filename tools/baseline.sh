#!/bin/bash
# Build /repo/_build and run the pinned suite; prints the number of TAP "ok"/"not ok" lines.
set -e
R=${1:-/repo}
cmake --build $R/_build >/dev/null 2>&1 || { echo BUILD-FAILED; exit 1; }
ok=0; nok=0
for t in $R/_build/test/t-*; do
  [ -x "$t" ] || continue
  out=$( (cd $R/_build/test && timeout 300 $t 2>&1) || true)
  o=$(printf '%s\n' "$out" | grep -c '^ok ' || true)
  n=$(printf '%s\n' "$out" | grep -c '^not ok ' || true)
  ok=$((ok+o)); nok=$((nok+n))
done
echo "tap ok=$ok not_ok=$nok"
ctest --test-dir $R/_build -j8 --timeout 900 2>&1 | grep -E "tests passed|tests failed" 
[ $nok -eq 0 ]
