#!/usr/bin/env python3
"""tools/seed-table.py: regenerate the seeded-change table of DESIGN.md (between the SEED-TABLE markers)
from seeded/*/meta.json."""
import glob, json, os, re
V = os.path.dirname(os.path.dirname(os.path.abspath(__file__)))
rows = []
tot = {"quick": 0, "sibling": 0, "thorough": 0, "no": 0}
for d in sorted(glob.glob(os.path.join(V, "seeded", "C??-?"))):
    m = json.load(open(os.path.join(d, "meta.json")))
    c = m.get("check", {})
    needs = " ".join((m.get("needs") or "").split())[:230].replace("|", "/")
    first = c.get("first", "")
    mi = re.search(r"instance=(\S+)", first)
    ma = re.search(r"assert=(\S+)", first)
    where = "%s / %s" % (mi.group(1), ma.group(1)) if mi and ma else "-"
    if m.get("detected"):
        how = "yes"; tot["quick"] += 1
    elif m.get("sibling_checks") and any(s["exit"] == 1 and s["violations"] > 0 for s in m["sibling_checks"].values()):
        k, s = [(k, s) for k, s in m["sibling_checks"].items() if s["exit"] == 1][0]
        how = "by %s quick" % k; tot["sibling"] += 1
        mi = re.search(r"instance=(\S+)", s["first"]); ma = re.search(r"assert=(\S+)", s["first"])
        where = "%s / %s" % (mi.group(1), ma.group(1))
    elif m.get("thorough", {}).get("exit") == 1:
        how = "thorough only"; tot["thorough"] += 1
        s = m["thorough"]["first"]
        mi = re.search(r"instance=(\S+)", s); ma = re.search(r"assert=(\S+)", s)
        where = "%s / %s" % (mi.group(1), ma.group(1))
    else:
        how = "NO"; tot["no"] += 1
    rows.append("| %s | %s | %s | %s | %ss |" % (os.path.basename(d), needs, how, where, c.get("wall_s", "?")))
head = ("| seed | what it needs to manifest (from the author's notes) | caught by quick | first failing instance / "
        "assertion | check wall |\n|---|---|---|---|---|\n")
table = "<!-- SEED-TABLE-BEGIN -->\n" + head + "\n".join(rows) + "\n<!-- SEED-TABLE-END -->"
p = os.path.join(V, "DESIGN.md")
s = open(p).read()
if "<!-- SEED-TABLE-BEGIN -->" in s:
    s = re.sub(r"<!-- SEED-TABLE-BEGIN -->.*?<!-- SEED-TABLE-END -->", lambda _: table, s, flags=re.S)
else:
    s = re.sub(r"\| seed \| what it needs.*?\n(?=\n\*\*Behaviour-preserving)", lambda _: table + "\n", s, flags=re.S)
open(p, "w").write(s)
print(len(rows), tot)
