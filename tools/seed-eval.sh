#!/bin/bash
# tools/seed-eval.sh <Cxx> <variant> <srcdir>   (srcdir contains patch.diff, demo.c, NOTES.txt)
# Confirms a seeded change independently and runs the quick check of the property against it.
# Writes /verif/seeded/<Cxx>-<variant>/{patch.diff,demo.c,NOTES.txt,meta.json}
set -u
P=$1; V=$2; SRC=$3
W=/tmp/ev-$P-$V
OUT=/verif/seeded/$P-$V
mkdir -p $OUT
cp $SRC/patch.diff $SRC/demo.c $OUT/ 2>/dev/null; cp $SRC/NOTES.txt $OUT/ 2>/dev/null
git -C /repo worktree remove --force $W >/dev/null 2>&1
git -C /repo worktree add --detach $W HEAD >/dev/null 2>&1
FLAGS="-std=gnu99 -DNDEBUG -DSYSTEM_ENDIANNESS_LITTLE -DUFW_USE_BUILTIN_SWAP -D_DEFAULT_SOURCE"
# compile command for the demo: all library sources that are not tests/zephyr/posix-specific
srcs() { ls $1/src/*.c $1/src/endpoints/*.c $1/src/registers/*.c $1/src/compat/*.c ; }
cmake -G Ninja -B $W/_build -S $W -DCMAKE_BUILD_TYPE=RelWithDebInfo >/dev/null 2>&1
# pristine demo
gcc $FLAGS -w -I$W/include -I$W/_build/include $OUT/demo.c $(srcs $W) -lm -o /tmp/ev-$P-$V.pristine 2>/tmp/ev-$P-$V.cc.log
pb=$?
timeout 60 /tmp/ev-$P-$V.pristine >/tmp/ev-$P-$V.p.out 2>&1; prc=$?
# apply
git -C $W apply $OUT/patch.diff; arc=$?
cmake --build $W/_build >/tmp/ev-$P-$V.build.log 2>&1; brc=$?
notok=$( (cd $W/_build/test && for t in ./t-*; do timeout 300 $t; done) 2>&1 | grep -c '^not ok')
okc=$( (cd $W/_build/test && for t in ./t-*; do timeout 300 $t; done) 2>&1 | grep -c '^ok ')
gcc $FLAGS -w -I$W/include -I$W/_build/include $OUT/demo.c $(srcs $W) -lm -o /tmp/ev-$P-$V.mutant 2>>/tmp/ev-$P-$V.cc.log
mb=$?
timeout 60 /tmp/ev-$P-$V.mutant >/tmp/ev-$P-$V.m.out 2>&1; mrc=$?
# the check
s=$(date +%s)
VP_REPO=$W VP_EVIDENCE_DIR=/tmp/ev-$P-$V.evidence VP_REPLAY_DIR=/tmp/ev-$P-$V.replays timeout 3000 /verif/check $P --tier quick > /tmp/ev-$P-$V.check.log 2>&1
crc=$?
e=$(date +%s)
nv=$(grep -c '^VIOLATION' /tmp/ev-$P-$V.check.log)
first=$(grep '^VIOLATION' /tmp/ev-$P-$V.check.log | head -1 | cut -c1-300)
python3 - <<PY
import json
json.dump({
 "property": "$P", "variant": "$V",
 "needs": open("$OUT/NOTES.txt").read() if __import__("os").path.exists("$OUT/NOTES.txt") else "",
 "confirmed": {"patch_applies": $arc == 0, "builds": $brc == 0, "suite_not_ok": $notok, "suite_ok_lines": $okc,
               "demo_builds": $pb == 0 and $mb == 0, "demo_exit_pristine": $prc, "demo_exit_mutant": $mrc},
 "ran": ["cmake --build + all t-* test programs on the patched worktree", "demo on pristine and patched tree",
         "VP_REPO=<patched worktree> ./check $P --tier quick"],
 "check": {"exit": $crc, "violations": $nv, "wall_s": $((e-s)), "first": """$first"""},
 "detected": $crc == 1 and $nv > 0,
}, open("$OUT/meta.json", "w"), indent=1)
PY
echo "$P-$V applies=$arc build=$brc not_ok=$notok ok=$okc demo(pristine=$prc mutant=$mrc) check_exit=$crc violations=$nv wall=$((e-s))s"
git -C /repo worktree remove --force $W >/dev/null 2>&1
rm -rf /tmp/ev-$P-$V.pristine /tmp/ev-$P-$V.mutant /tmp/ev-$P-$V.evidence /tmp/ev-$P-$V.replays
