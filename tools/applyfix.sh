#!/bin/bash
# applyfix.sh <patch> <commit message file|string>
set -e
cd /repo
git apply "$1"
/verif/tools/baseline.sh >/tmp/applyfix.log 2>&1 || { cat /tmp/applyfix.log; git checkout -- .; echo "BASELINE FAILED for $1"; exit 1; }
tail -2 /tmp/applyfix.log | head -1
git commit -qam "$2"
git log --oneline | head -1
