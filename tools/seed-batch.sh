#!/bin/bash
# evaluate every delivered seed that has no meta.json yet; 3 at a time
cd /verif
todo=()
for d in /tmp/seed-C*/seed/A /tmp/seed-C*/seed/B /tmp/seed-C*/seed/C /tmp/seed-C*/seed/D /tmp/seed-C*/seed/E /tmp/seed-C*/seed/F /tmp/seed-C*/seed/G /tmp/seed-C*/seed/H; do
  [ -f $d/patch.diff ] && [ -f $d/demo.c ] || continue
  p=$(echo $d | sed 's#/tmp/seed-\(C[0-9]*\)/seed/\(.\)#\1#'); v=$(basename $d)
  [ -f /verif/seeded/$p-$v/meta.json ] && continue
  todo+=("$p $v $d")
done
printf '%s\n' "${todo[@]}" | VP_JOBS=6 xargs -P 3 -L 1 bash -c 'VP_JOBS=6 /verif/tools/seed-eval.sh $0 $1 $2' 2>&1 | grep -v conda
