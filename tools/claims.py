CLAIMS["C16"] = {
    "text": "Bounded model checking of src/crc-16-arc.c: the update step is decided for all 2^24 (state, octet) pairs (this pins all 256 table entries); buffer, concatenation and 16-bit-word variants are decided for every content, initial value and split point up to the stated length (quick 4 octets / 4 words, thorough 10 / 8). Longer buffers follow from step + loop structure by induction, which is argued, not machine-checked.",
    "note": "Trusted: CBMC + SAT back end, the 10-line bit-serial reference CRC in the harness, little-endian 8-bit-byte configuration. Loop bounds are enforced by unwinding assertions.",
}
