CLAIMS["C16"] = {
    "text": "Bounded model checking of src/crc-16-arc.c: the update step is decided for all 2^24 (state, octet) pairs (this pins all 256 table entries); buffer, concatenation and 16-bit-word variants are decided for every content, initial value and split point up to the stated length (quick 4 octets / 4 words, thorough 10 / 8). Longer buffers follow from step + loop structure by induction, which is argued, not machine-checked.",
    "note": "Trusted: CBMC + SAT back end, the 10-line bit-serial reference CRC in the harness, little-endian 8-bit-byte configuration. Loop bounds are enforced by unwinding assertions.",
}
CLAIMS["C18"] = {
    "text": "One-step inductive bounded model checking of src/byte-buffer.c: from every state satisfying offset <= used <= size (size 1..4 quick / 1..8 thorough, arbitrary contents and canaries) one arbitrary operation with an arbitrary exact-size operand (length 0..size+1) is executed symbolically and compared with a list model; invariant, FIFO content, refusal-without-change and frame conditions are asserted. Arbitrary pre-state means the verdict covers operation histories of any length for these sizes.",
    "note": "Trusted: CBMC + SAT, byte-loop memcpy/memmove/memset models, the list model in the harness. Sizes above the bound are outside the claim.",
}
