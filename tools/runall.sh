#!/bin/bash
# tools/runall.sh [quick|thorough] [ids...] : run checks one after the other, print a summary line each
cd /verif
tier=${1:-quick}; shift
ids=${@:-C01 C02 C03 C04 C05 C06 C07 C08 C09 C10 C11 C12 C13 C14 C15 C16 C17 C18 C19 C20}
mkdir -p /tmp/runall
for p in $ids; do
  s=$(date +%s)
  ./check $p --tier $tier > /tmp/runall/$p.$tier.log 2>&1
  rc=$?
  e=$(date +%s)
  echo "$p tier=$tier exit=$rc wall=$((e-s))s $(grep -c '^VIOLATION' /tmp/runall/$p.$tier.log) violations $(grep -c '^KNOWN-FINDING' /tmp/runall/$p.$tier.log) known"
done
