#!/usr/bin/env python3
# tools/prof.py Cxx instance [tier]: build the instance and print SSA step counts per function (cbmc --program-only)
import os, re, sys, subprocess, tempfile, collections, shutil
sys.path.insert(0, os.path.dirname(os.path.dirname(os.path.abspath(__file__))))
from vp import driver
prop, name = sys.argv[1], sys.argv[2]
tier = sys.argv[3] if len(sys.argv) > 3 else "quick"
spec = driver.load_spec(prop)
inst = [i for i in spec.instances(tier) if i.name == name][0]
tmp = tempfile.mkdtemp(prefix="vp-prof-")
gb, err = driver.build_goto(inst, tmp, [])
assert gb, err
loops = driver.loops_of(gb, tmp)
cmd, _ = driver.cbmc_cmd(inst, gb, loops)
cmd = [c for c in cmd if c not in ("--json-ui", "--trace")]
i = cmd.index("--verbosity"); del cmd[i:i + 2]
out = subprocess.run(cmd + ["--program-only"], capture_output=True, text=True, timeout=1800).stdout
c = collections.Counter(re.findall(r"function ([A-Za-z_0-9]+)", out))
print("lines", out.count("\n"))
for f, n in c.most_common(40):
    print("%8d %s" % (n, f))
shutil.rmtree(tmp, ignore_errors=True)
