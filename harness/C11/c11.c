/* C11: interrupted or failing stores never validate a mixed image silently.
 * Units: src/persistent-storage.c, src/crc-16-arc.c (linked unchanged).
 * Medium model, checksum kinds and scenario structure: C10/c10_common.h.
 *
 * MODE_HONEST     arbitrary medium content (subsumes every torn write at every
 *                 octet) -> validate by a fresh instance
 * MODE_CRASHFULL  medium holds a valid old image; persistent_store() runs on a
 *                 medium that loses power after `budget` complete write calls
 *                 (crash_mode 1) or after `budget` octets, tearing the write
 *                 in progress (crash_mode 2); then a fresh instance validates
 *                 and fetches
 * MODE_CRASHPART  the same with persistent_store_part(offset, length)
 * MODE_FAULTA     store -> validate -> fetch -> reset with ONE read/write
 *                 callback invocation (symbolic index over the whole sequence)
 *                 that reports a count different from the request (any value)
 *                 after transferring any prefix of it
 * MODE_FAULTB     the same for store_part -> fetch_part
 */
#define PROP "C11"
#include <C10/c10_common.h>

struct vp_in {
    struct c10_cfg cfg;
    struct c10_states sta, sto, stc; /* states for the new / old / left-over image */
    uint8_t medium[MSIZE];
    uint8_t image[N]; /* new image, or source operand of the partial store */
    uint8_t old[N];   /* valid image on the medium before the interrupted store */
    uint8_t dst[GUARD + N + GUARD];
    uint64_t off, len;   /* store_part */
    uint64_t foff, flen; /* fetch_part */
    uint8_t crash_mode;
    uint8_t budget;
    uint8_t fault_at;
    uint64_t fault_ret;
    uint8_t fault_xfer;
    uint8_t item;
    uint8_t stale[sizeof(PersistentStorage)];
};
VP_DECLARE_INPUT();

#define DSTSZ (GUARD + N + GUARD)

static void scenario(const struct vp_in *in, uint8_t kind, uint8_t aux)
{
    struct c10_cfg cfg = in->cfg;
    if (!c10_begin(&cfg, kind, aux, in->medium))
        return;
    c10_set_stale(in->stale);

    uint8_t dst[DSTSZ];
    for (size_t i = 0; i < DSTSZ; ++i)
        dst[i] = in->dst[i];
    uint8_t img[N];
    for (size_t i = 0; i < N; ++i)
        img[i] = in->image[i];

#if defined(MODE_HONEST)
    uint8_t data[N];
    c10_get_data(data);
    c10_current(&cfg, data, &in->sta);
    const uint32_t stored = c10_stored();
    const uint32_t calc = c10_ref(&cfg, data);
    PersistentStorage t;
    c10_instance(&t, &cfg);
    const PersistentAccess v = persistent_validate(&t);
    if (v == PERSISTENT_ACCESS_SUCCESS)
        VP_ASSERT(stored == calc, "C11.validate-succeeds-only-if-checksum-matches-data");
    if (stored != calc)
        VP_ASSERT(v == PERSISTENT_ACCESS_INVALID_DATA, "C11.mismatch-reported-invalid");
    VP_WITNESS(v == PERSISTENT_ACCESS_SUCCESS && cfg.base == 0x80000000u && !a_lost, "C11.honest.valid.reach");
    VP_WITNESS(v == PERSISTENT_ACCESS_INVALID_DATA && cfg.order == 1, "C11.honest.invalid.reach");

#elif defined(MODE_CRASHFULL) || defined(MODE_CRASHPART)
    /* a valid old image is on the medium */
    uint8_t old[N], new[N], aft[N];
    for (size_t i = 0; i < N; ++i)
        old[i] = in->old[i];
    c10_current(&cfg, old, &in->sto);
    const uint32_t ref_old = c10_ref(&cfg, old);
    c10_put_data(old);
    c10_put_stored(ref_old);

#if defined(MODE_CRASHFULL)
    const uint8_t *src = img;
    for (size_t i = 0; i < N; ++i)
        new[i] = img[i];
#else
    if (in->len > N || in->off > N - in->len)
        return; /* refused stores write nothing (C10) */
    const size_t have = (size_t)in->len;
#ifdef VP_REPLAY
    uint8_t *src = malloc(have ? have : 1);
    memcpy(src, img + (N - have), have);
#else
    const uint8_t *src = img + (N - have);
#endif
    for (size_t i = 0; i < N; ++i)
        new[i] = (i >= in->off && i < in->off + in->len) ? src[i - in->off] : old[i];
#endif
    /* same image, same states */
    const bool new_is_old = c10_same(new, old);
    c10_current(&cfg, new, new_is_old ? &in->sto : &in->sta);
    const uint32_t ref_new = c10_ref(&cfg, new);

    PersistentStorage s;
    c10_instance(&s, &cfg);
    m_crash_mode = in->crash_mode;
    m_budget = in->budget;
#if defined(MODE_CRASHFULL)
    const PersistentAccess rc = persistent_store(&s, src);
#else
    const PersistentAccess rc = persistent_store_part(&s, src, (size_t)in->off, (size_t)in->len);
#endif
    (void)rc; /* the system is dead; what the interrupted call returned is irrelevant */
    const unsigned writes = m_writes;
    m_crash_mode = 0;

    /* power is back: what is on the medium now? */
    c10_get_data(aft);
    const bool aft_is_new = c10_same(aft, new);
    const bool aft_is_old = c10_same(aft, old);
    c10_current(&cfg, aft, aft_is_new ? (new_is_old ? &in->sto : &in->sta) : aft_is_old ? &in->sto : &in->stc);
    const uint32_t stored = c10_stored();
    const uint32_t calc = c10_ref(&cfg, aft);

    PersistentStorage t; /* after the reboot: a fresh instance, same configuration */
    c10_instance(&t, &cfg);
    const PersistentAccess v = persistent_validate(&t);
    const PersistentAccess f = persistent_fetch(dst + GUARD, &t);
    if (v == PERSISTENT_ACCESS_SUCCESS) {
        VP_ASSERT(stored == calc, "C11.crash.validates-only-if-checksum-matches-data-on-medium");
        if (in->crash_mode == 1) {
            VP_ASSERT(f == PERSISTENT_ACCESS_SUCCESS, "C11.crash.whole-write.fetch-succeeds");
            VP_ASSERT(c10_same(dst + GUARD, old) || c10_same(dst + GUARD, new),
                      "C11.crash.whole-write.fetch-returns-old-or-new");
        }
    }
    if (stored != calc)
        VP_ASSERT(v == PERSISTENT_ACCESS_INVALID_DATA, "C11.crash.mismatch-reported-invalid");
    /* an uninterrupted store leaves the new image, valid */
    if (in->crash_mode == 1 && in->budget >= writes) {
        VP_ASSERT(v == PERSISTENT_ACCESS_SUCCESS && aft_is_new && stored == ref_new,
                  "C11.crash.uncut-store-is-new-and-valid");
    }
    VP_WITNESS(in->crash_mode == 1 && in->budget == 1 && writes == 2 && v == PERSISTENT_ACCESS_INVALID_DATA &&
                   aft_is_new && !aft_is_old,
               "C11.crash.data-written-checksum-lost.reach");
#if N > 1
    VP_WITNESS(in->crash_mode == 2 && in->budget > 0 && !aft_is_new && !aft_is_old &&
                   v == PERSISTENT_ACCESS_INVALID_DATA,
               "C11.crash.torn-data-write.reach");
#else
    VP_WITNESS(in->crash_mode == 2 && in->budget == 1 && aft_is_new && !aft_is_old &&
                   v == PERSISTENT_ACCESS_INVALID_DATA,
               "C11.crash.octet-budget-one.reach");
#endif
#if (KINDS) & 0x18u
    /* an abstract algorithm may collide: new data under the old checksum validates */
    VP_WITNESS(in->crash_mode == 1 && in->budget == 1 && writes == 2 && v == PERSISTENT_ACCESS_SUCCESS &&
                   !aft_is_old && C10_ABSTRACT(kind),
               "C11.crash.collision-validates-new.reach");
#endif
#if defined(MODE_CRASHPART) && defined(VP_REPLAY)
    free(src);
#endif

#elif defined(MODE_FAULTA)
    PersistentStorage s;
    c10_instance(&s, &cfg);
    m_fault_at = in->fault_at;
    m_fault_ret = (size_t)in->fault_ret;
    m_fault_xfer = in->fault_xfer;
    c10_current(&cfg, img, &in->sta);

    PersistentAccess rc = persistent_store(&s, img);
    if (m_fault_hit) {
        VP_ASSERT(rc == PERSISTENT_ACCESS_IO_ERROR, "C11.fault.store.reports-io-error");
        return;
    }
    rc = persistent_validate(&s);
    if (m_fault_hit) {
        VP_ASSERT(rc == PERSISTENT_ACCESS_IO_ERROR, "C11.fault.validate.reports-io-error");
        VP_WITNESS(in->fault_ret == 0 && m_reads >= 2, "C11.fault.validate-data-read.reach");
        return;
    }
    rc = persistent_fetch(dst + GUARD, &s);
    if (m_fault_hit) {
        VP_ASSERT(rc == PERSISTENT_ACCESS_IO_ERROR, "C11.fault.fetch.reports-io-error");
        return;
    }
    const unsigned w0 = m_writes;
    rc = persistent_reset(&s, in->item);
    if (m_fault_hit) {
        VP_ASSERT(rc == PERSISTENT_ACCESS_IO_ERROR, "C11.fault.reset.reports-io-error");
        VP_WITNESS(m_writes >= w0 + 2 && in->fault_ret > 0xffffffffu, "C11.fault.reset-second-write.reach");
        return;
    }

#elif defined(MODE_FAULTB)
    if (in->len > N || in->off > N - in->len || in->flen > N || in->foff > N - in->flen)
        return; /* refused part accesses make no medium access (C10) */
    PersistentStorage s;
    c10_instance(&s, &cfg);
    m_fault_at = in->fault_at;
    m_fault_ret = (size_t)in->fault_ret;
    m_fault_xfer = in->fault_xfer;

    const size_t have = (size_t)in->len;
#ifdef VP_REPLAY
    uint8_t *src = malloc(have ? have : 1);
    memcpy(src, img + (N - have), have);
#else
    const uint8_t *src = img + (N - have);
#endif
    uint8_t old[N], want[N];
    c10_get_data(old);
    for (size_t i = 0; i < N; ++i)
        want[i] = (i >= in->off && i < in->off + in->len) ? src[i - in->off] : old[i];
    c10_current(&cfg, want, &in->sta);

    PersistentAccess rc = persistent_store_part(&s, src, (size_t)in->off, (size_t)in->len);
    if (m_fault_hit) {
        VP_ASSERT(rc == PERSISTENT_ACCESS_IO_ERROR, "C11.fault.store-part.reports-io-error");
        VP_WITNESS(m_reads >= 1, "C11.fault.store-part-recalculation-read.reach");
        VP_WITNESS(m_reads == 0 && m_writes == 1 && in->len == 0, "C11.fault.store-part-empty-write.reach");
        return;
    }
    rc = persistent_fetch_part(dst + GUARD, &s, (size_t)in->foff, (size_t)in->flen);
    if (m_fault_hit) {
        VP_ASSERT(rc == PERSISTENT_ACCESS_IO_ERROR, "C11.fault.fetch-part.reports-io-error");
        VP_WITNESS(in->flen == N && in->fault_xfer == N - 1, "C11.fault.fetch-part-short.reach");
        return;
    }
#else
#error "no MODE"
#endif
}

void harness(void)
{
    VP_INPUT(in);
    c10_assume_cfg(&in.cfg);
    VP_ASSUME(in.crash_mode == 1 || in.crash_mode == 2);
    VP_ASSUME(in.fault_at < 64);
    for (unsigned kind = 0; kind < NKINDS; ++kind)
        for (unsigned aux = 0; aux <= AUXMAX; ++aux)
            if (c10_selected(kind, aux))
                scenario(&in, (uint8_t)kind, (uint8_t)aux);
}
VP_MAIN_EPILOGUE()
