/* C14: varint coding is canonical, lossless and bounded.
 * Units (linked unchanged): src/variable-length-integer.c, src/byte-buffer.c,
 * src/endpoints/buffer.c, src/endpoints/core.c.
 *
 * MODE_ROUNDTRIP (-DKIND=0..3: u32, s32, u64, s64): fully symbolic value;
 *   length query, encoder output (buffer and sink), and the three decoding
 *   routes (buffer, buffer-backed source, octet-wise scripted source) against
 *   a reference LEB128 written from the definition. The decode buffer's memory
 *   ends exactly after the encoding.
 * MODE_AGREE (-DN=1..11): arbitrary octet string in a block of exactly N
 *   octets, arbitrary start offset (so every truncation point is the end of
 *   the memory), decoder kind chosen by the solver: buffer decoder and source
 *   decoder agree; unterminated => -EILSEQ; cut off => error, nothing
 *   consumed; no access outside the block (cbmc bounds checks / ASan).
 */
#include <vp.h>
#include <string.h>
#include <ufw/compat/errno.h>
#include <ufw/byte-buffer.h>
#include <ufw/endpoints.h>
#include <ufw/variable-length-integer.h>

#define K_U32 0
#define K_S32 1
#define K_U64 2
#define K_S64 3
#define MAXO_OF(kind) ((kind) < K_U64 ? 5u : 10u)

/* ---- reference: minimal little-endian base-128 form of an unsigned image --
 * length = smallest L >= 1 with img < 2^(7L); octet k carries bits 7k..7k+6
 * of img; every octet but the last has the continuation flag 0x80. */
static unsigned ref_len(uint64_t img)
{
    unsigned L = 1;
    for (unsigned k = 1; k < 10; ++k)
        if ((img >> (7u * k)) != 0u)
            L = k + 1u;
    return L;
}

static uint8_t ref_octet(uint64_t img, unsigned L, unsigned k)
{
    uint8_t o = (uint8_t)((img >> (7u * k)) & 0x7fu);
    return (k + 1u < L) ? (uint8_t)(o | 0x80u) : o;
}

/* ---- the values travel through the harness as their two's-complement image
 * at the kind's width (zero-extended to 64 bit) ---- */
union i32 { uint32_t u; int32_t s; };
union i64 { uint64_t u; int64_t s; };

static uint64_t image_of(int kind, uint64_t raw)
{
    return kind < K_U64 ? (raw & 0xffffffffu) : raw;
}

static size_t len_query(int kind, uint64_t img)
{
    union i32 a; union i64 b;
    a.u = (uint32_t)img; b.u = img;
    switch (kind) {
    case K_U32: return varint_u32_length(a.u);
    case K_S32: return varint_s32_length(a.s);
    case K_U64: return varint_u64_length(b.u);
    default:    return varint_s64_length(b.s);
    }
}

static int enc_buf(int kind, ByteBuffer *bb, uint64_t img)
{
    union i32 a; union i64 b;
    a.u = (uint32_t)img; b.u = img;
    switch (kind) {
    case K_U32: return varint_encode_u32(bb, a.u);
    case K_S32: return varint_encode_s32(bb, a.s);
    case K_U64: return varint_encode_u64(bb, b.u);
    default:    return varint_encode_s64(bb, b.s);
    }
}

static int enc_sink(int kind, Sink *sk, uint64_t img)
{
    union i32 a; union i64 b;
    a.u = (uint32_t)img; b.u = img;
    switch (kind) {
    case K_U32: return varint_u32_to_sink(sk, a.u);
    case K_S32: return varint_s32_to_sink(sk, a.s);
    case K_U64: return varint_u64_to_sink(sk, b.u);
    default:    return varint_s64_to_sink(sk, b.s);
    }
}

static int dec_buf(int kind, ByteBuffer *bb, uint64_t *img)
{
    union i32 a; union i64 b;
    int rc;
    a.u = 0; b.u = 0;
    switch (kind) {
    case K_U32: rc = varint_decode_u32(bb, &a.u); *img = a.u; break;
    case K_S32: rc = varint_decode_s32(bb, &a.s); *img = a.u; break;
    case K_U64: rc = varint_decode_u64(bb, &b.u); *img = b.u; break;
    default:    rc = varint_decode_s64(bb, &b.s); *img = b.u; break;
    }
    return rc;
}

static int dec_src(int kind, Source *src, uint64_t *img)
{
    union i32 a; union i64 b;
    int rc;
    a.u = 0; b.u = 0;
    switch (kind) {
    case K_U32: rc = varint_u32_from_source(src, &a.u); *img = a.u; break;
    case K_S32: rc = varint_s32_from_source(src, &a.s); *img = a.u; break;
    case K_U64: rc = varint_u64_from_source(src, &b.u); *img = b.u; break;
    default:    rc = varint_s64_from_source(src, &b.s); *img = b.u; break;
    }
    return rc;
}

/* ---- octet-wise scripted source: delivers p[0..n) one octet per call, then
 * answers -ENODATA like the buffer endpoints do ---- */
struct script {
    const uint8_t *p;
    size_t n;
    size_t pos;
    unsigned calls;
};

static int script_get(void *drv, void *dst)
{
    struct script *s = drv;
    s->calls++;
    if (s->pos >= s->n)
        return -ENODATA;
    *(unsigned char *)dst = s->p[s->pos];
    s->pos++;
    return 1;
}

/* ======================================================================= */
#if defined(MODE_ROUNDTRIP)

#ifndef KIND
#error "KIND"
#endif
#define MAXO MAXO_OF(KIND)
#define PRE 2u /* octets in front of the varint in the decode buffers */

struct vp_in {
    uint64_t v;
    uint8_t pre;         /* 0..PRE */
    uint8_t space_style; /* decode buffer set up like the repository's tests: used == 0 */
    uint8_t junk[PRE];
    uint8_t encfill[MAXO];
};
VP_DECLARE_INPUT();

void harness(void)
{
    VP_INPUT(in);
    VP_ASSUME(in.pre <= PRE);
    /* fill mark 0 only in exactly the tests' configuration (offset 0) */
    VP_ASSUME(in.space_style <= 1 && (!in.space_style || in.pre == 0));

    const uint64_t img = image_of(KIND, in.v);
    const unsigned L = ref_len(img);
    const size_t pre = in.pre;
    const size_t total = pre + L;

    /* -- length query: minimal and bounded -- */
    const size_t q = len_query(KIND, img);
    VP_ASSERT(q == L, "C14.rt.length-query-is-minimal-length");
    VP_ASSERT(q >= 1 && q <= MAXO, "C14.rt.length-at-most-5-resp-10");

    /* -- encode into a fresh space buffer of the maximum length -- */
    uint8_t ebuf[MAXO];
    memcpy(ebuf, in.encfill, MAXO);
    ByteBuffer eb = { .data = ebuf, .size = MAXO, .used = 0, .offset = 0 };
    const int erc = enc_buf(KIND, &eb, img);
    VP_ASSERT(erc == (int)q, "C14.rt.encode-length-equals-query");
    VP_ASSERT(eb.used == L && eb.offset == 0 && eb.size == MAXO && eb.data == ebuf,
              "C14.rt.encode-buffer-fields");
    for (unsigned k = 0; k < MAXO; ++k)
        if (k < L)
            VP_ASSERT(ebuf[k] == ref_octet(img, L, k), "C14.rt.encode-octets-minimal-leb128");

    /* -- encode to a sink: the same octets arrive -- */
    uint8_t kbuf[MAXO];
    memcpy(kbuf, in.encfill, MAXO);
    ByteBuffer kb = { .data = kbuf, .size = MAXO, .used = 0, .offset = 0 };
    Sink sink;
    sink_to_buffer(&sink, &kb);
    const int krc = enc_sink(KIND, &sink, img);
    VP_ASSERT(krc >= 0, "C14.rt.to-sink-succeeds");
    VP_ASSERT(kb.used == L, "C14.rt.to-sink-length");
    for (unsigned k = 0; k < MAXO; ++k)
        if (k < L)
            VP_ASSERT(kbuf[k] == ref_octet(img, L, k), "C14.rt.to-sink-octets");

    /* -- decode from a buffer whose memory ends exactly after the varint -- */
#ifdef VP_REPLAY
    uint8_t *d = malloc(total);
#else
    uint8_t dmem[PRE + MAXO];
    uint8_t *d = dmem + (PRE + MAXO - total);
#endif
    uint8_t enc[MAXO];
    for (unsigned k = 0; k < PRE; ++k)
        if (k < pre)
            d[k] = in.junk[k];
    for (unsigned k = 0; k < MAXO; ++k) {
        enc[k] = (k < L) ? ref_octet(img, L, k) : 0;
        if (k < L)
            d[pre + k] = enc[k];
    }
    ByteBuffer db = { .data = d, .size = total,
                      .used = in.space_style ? 0u : total, .offset = pre };
    const size_t db_used = db.used;
    uint64_t got = ~img;
    const int drc = dec_buf(KIND, &db, &got);
    VP_ASSERT(drc == (int)L, "C14.rt.decode-buffer-count");
    VP_ASSERT(got == img, "C14.rt.decode-buffer-value");
    VP_ASSERT(db.offset == pre + L, "C14.rt.decode-buffer-consumes-exactly");
    VP_ASSERT(db.data == d && db.size == total && db.used == db_used,
              "C14.rt.decode-buffer-other-fields-unchanged");
    for (unsigned k = 0; k < PRE + MAXO; ++k)
        if (k < total)
            VP_ASSERT(d[k] == (k < pre ? in.junk[k] : enc[k - pre]),
                      "C14.rt.decode-buffer-memory-unchanged");

    /* -- decode from a source reading a byte buffer -- */
    uint8_t smem[PRE + MAXO];
    for (unsigned k = 0; k < PRE + MAXO; ++k)
        smem[k] = (k < pre) ? in.junk[k] : (k < total ? enc[k - pre] : 0);
    ByteBuffer sb = { .data = smem, .size = PRE + MAXO, .used = total, .offset = pre };
    Source src;
    source_from_buffer(&src, &sb);
    uint64_t got2 = ~img;
    const int src_rc = dec_src(KIND, &src, &got2);
    VP_ASSERT(src_rc == (int)L, "C14.rt.decode-source-count");
    VP_ASSERT(got2 == img, "C14.rt.decode-source-value");
    VP_ASSERT(sb.offset == pre + L, "C14.rt.decode-source-consumes-exactly");

    /* -- decode octet-wise from a scripted octet source -- */
    struct script sc = { .p = enc, .n = L, .pos = 0, .calls = 0 };
    Source osrc;
    octet_source_init(&osrc, script_get, &sc);
    uint64_t got3 = ~img;
    const int orc = dec_src(KIND, &osrc, &got3);
    VP_ASSERT(orc == (int)L, "C14.rt.decode-octetwise-count");
    VP_ASSERT(got3 == img, "C14.rt.decode-octetwise-value");
    VP_ASSERT(sc.calls == L && sc.pos == L, "C14.rt.decode-octetwise-consumes-exactly");

    VP_WITNESS(L == MAXO && drc == (int)MAXO && orc == (int)MAXO && erc == (int)MAXO && pre == PRE,
               "C14.rt.maxlen.reach");
    VP_WITNESS(L == 1 && img != 0 && drc == 1 && in.space_style == 1, "C14.rt.one-octet.reach");
    VP_WITNESS(L == 3 && src_rc == 3 && krc >= 0 && pre == 1, "C14.rt.mid.reach");
#if KIND == K_S32 || KIND == K_S64
    VP_WITNESS((img >> (KIND == K_S32 ? 31 : 63)) == 1 && got == img && got3 == img,
               "C14.rt.negative.reach");
#endif
#ifdef VP_REPLAY
    free(d);
#endif
}

/* ======================================================================= */
#elif defined(MODE_AGREE)

#ifndef N
#error "N"
#endif

struct vp_in {
    uint8_t kind;        /* & 3 */
    uint8_t off;         /* 0..N: the string under test is oct[off..N) */
    uint8_t space_style; /* buffer decoder's buffer has used == 0 (the tests' set-up) */
    uint8_t oct[N];
};
VP_DECLARE_INPUT();

enum { TERMINATED, ILLEGAL, CUTOFF };

void harness(void)
{
    VP_INPUT(in);
    const int kind = in.kind & 3;
    const size_t maxo = MAXO_OF(kind);
    VP_ASSUME(in.off <= N);
    VP_ASSUME(in.space_style <= 1 && (!in.space_style || in.off == 0));
    const size_t off = in.off;
    const size_t avail = N - off;

    /* -- classify the string from the property text -- */
    int term = -1; /* index of the first octet without continuation flag */
    uint64_t refv = 0;
    for (unsigned k = 0; k < 10; ++k) {
        if (k < avail && k < maxo && term < 0) {
            refv |= (uint64_t)(in.oct[off + k] & 0x7fu) << (7u * k);
            if ((in.oct[off + k] & 0x80u) == 0)
                term = (int)k;
        }
    }
    const int cls = term >= 0 ? TERMINATED : (avail >= maxo ? ILLEGAL : CUTOFF);
    /* the string starts with the minimal encoding of a value of the kind's width */
    bool canonical = false;
    if (term >= 0) {
        const uint8_t last = in.oct[off + term];
        const bool minimal = (term == 0) || last != 0;
        const bool fits = (kind < K_U64) ? (term < 4 || last <= 0x0fu) : (term < 9 || last <= 0x01u);
        canonical = minimal && fits;
    }

    /* -- buffer decoder on a block of exactly N octets -- */
#ifdef VP_REPLAY
    uint8_t *A = malloc(N);
#else
    uint8_t Amem[N];
    uint8_t *A = Amem;
#endif
    for (unsigned k = 0; k < N; ++k)
        A[k] = in.oct[k];
    ByteBuffer b = { .data = A, .size = N, .used = in.space_style ? 0u : (size_t)N, .offset = off };
    const size_t b_used = b.used;
    uint64_t vb = 0;
    const int rcb = dec_buf(kind, &b, &vb);

    /* -- source decoders on the same string: a source reading a byte buffer,
     *    and the octet-wise scripted source -- */
    uint8_t B[N];
    for (unsigned k = 0; k < N; ++k)
        B[k] = in.oct[k];
    ByteBuffer sb = { .data = B, .size = N, .used = N, .offset = off };
    Source bsrc;
    source_from_buffer(&bsrc, &sb);
    uint64_t vs = 0;
    const int rcs = dec_src(kind, &bsrc, &vs);
    const size_t bsrc_consumed = sb.offset - off;

    struct script sc = { .p = in.oct + off, .n = avail, .pos = 0, .calls = 0 };
    Source osrc;
    octet_source_init(&osrc, script_get, &sc);
    uint64_t vo = 0;
    const int rco = dec_src(kind, &osrc, &vo);

    /* -- agreement -- */
    VP_ASSERT((rcb >= 0) == (rcs >= 0), "C14.agree.verdict");
    VP_ASSERT((rcb >= 0) == (rco >= 0), "C14.agree.verdict-octetwise");
    if (rcb >= 0 && rcs >= 0) {
        VP_ASSERT(vb == vs, "C14.agree.value");
        VP_ASSERT(rcb == rcs, "C14.agree.count");
        VP_ASSERT(b.offset - off == bsrc_consumed, "C14.agree.consumed-octets");
    }
    if (rcb >= 0 && rco >= 0) {
        VP_ASSERT(vb == vo, "C14.agree.value-octetwise");
        VP_ASSERT(rcb == rco, "C14.agree.count-octetwise");
        VP_ASSERT(b.offset - off == sc.pos, "C14.agree.consumed-octets-octetwise");
    }
    if (rcb >= 0) {
        VP_ASSERT(b.offset == off + (size_t)rcb, "C14.agree.buffer-consumes-reported-count");
        VP_ASSERT(rcb >= 1 && (size_t)rcb <= avail && (size_t)rcb <= maxo,
                  "C14.agree.count-within-string-and-maximum");
    }
    /* -- named verdicts -- */
    if (cls == ILLEGAL) {
        VP_ASSERT(rcb == -EILSEQ, "C14.illegal.buffer-decoder-eilseq");
        VP_ASSERT(rcs == -EILSEQ, "C14.illegal.source-decoder-eilseq");
        VP_ASSERT(rco == -EILSEQ, "C14.illegal.octetwise-decoder-eilseq");
    }
    if (cls == CUTOFF) {
        VP_ASSERT(rcb < 0, "C14.cutoff.is-an-error");
        VP_ASSERT(b.offset == off, "C14.cutoff.consumes-nothing");
    }
    if (canonical) {
        /* the round-trip clause seen from the decoder's side */
        VP_ASSERT(rcb == term + 1 && vb == image_of(kind, refv), "C14.canonical.buffer-decoder");
        VP_ASSERT(rcs == term + 1 && vs == image_of(kind, refv), "C14.canonical.source-decoder");
        VP_ASSERT(rco == term + 1 && vo == image_of(kind, refv), "C14.canonical.octetwise-decoder");
    }
    /* -- the buffer decoder changes nothing but the read mark -- */
    VP_ASSERT(b.data == A && b.size == N && b.used == b_used, "C14.agree.buffer-fields-unchanged");
    for (unsigned k = 0; k < N; ++k)
        VP_ASSERT(A[k] == in.oct[k], "C14.agree.buffer-memory-unchanged");

    VP_WITNESS(cls == TERMINATED && rcb >= 0 && rcs == rcb && (size_t)rcb == avail && rco == rcb,
               "C14.agree.ends-with-buffer.reach");
    VP_WITNESS(cls == CUTOFF && avail >= 1 && rcb < 0 && rcs < 0 && rco < 0,
               "C14.agree.cutoff.reach");
#if N >= 3
    VP_WITNESS(cls == TERMINATED && !canonical && rcb >= 2 && rcs == rcb && off > 0,
               "C14.agree.noncanonical.reach");
#endif
#if N >= 5
    VP_WITNESS(cls == ILLEGAL && kind < K_U64 && rcb == -EILSEQ && rcs == -EILSEQ,
               "C14.agree.illegal32.reach");
#endif
#if N >= 10
    VP_WITNESS(cls == ILLEGAL && kind >= K_U64 && rcb == -EILSEQ && in.space_style,
               "C14.agree.illegal64.reach");
    VP_WITNESS(cls == TERMINATED && rcb == 10 && rcs == 10 && kind == K_S64, "C14.agree.len10.reach");
#endif
#ifdef VP_REPLAY
    free(A);
#endif
}

#else
#error "no MODE"
#endif
VP_MAIN_EPILOGUE()
