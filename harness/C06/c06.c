/* C06: a valid request is executed exactly once and answered faithfully.
 * Unit: src/register-protocol.c (#include'd) + continuable-sink.c, byte-buffer.c,
 * allocator.c, crc-16-arc.c, endpoints/core.c; framing layer = contract stubs.
 * The receive block starts with ARBITRARY contents and the responder keeps no
 * state between requests, so one request from an arbitrary block image covers
 * every interleaving of requests on a session. */
#include "../regp/regp_common.h"

struct vp_in {
    uint8_t mem16;
    struct vp_backend_script bs;
    uint8_t garbage[8];
    uint8_t type, meta, ws16, hd, plc;
    uint16_t seq;
    uint32_t addr, nreq;
    uint8_t npl;
    uint8_t pl[PLMAX];
    uint8_t code; /* MODE_ACCESSMAP */
};
VP_DECLARE_INPUT();

void harness(void)
{
    VP_INPUT(in);
#ifdef TCP
    const bool tcp = true;
#else
    const bool tcp = false;
#endif
#if defined(MODE_ACCESSMAP)
    /* register-table verdict -> response code */
    RegisterAccess a = { .code = (RegisterAccessCode)in.code, .address = in.addr };
    RPBlockAccess b = regaccess2blockaccess(a);
    RPResponse want;
    switch (in.code) {
    case REG_ACCESS_SUCCESS: want = RP_RESP_ACK; break;
    case REG_ACCESS_UNINITIALISED: case REG_ACCESS_NOENTRY: want = RP_RESP_EUNMAPPED; break;
    case REG_ACCESS_RANGE: want = RP_RESP_ERANGE; break;
    case REG_ACCESS_INVALID: want = RP_RESP_EINVALID; break;
    case REG_ACCESS_READONLY: want = RP_RESP_EACCESS; break;
    default: want = RP_RESP_EIO; break; /* FAILURE, IO_ERROR and anything unknown */
    }
    VP_ASSERT(b.status == want && b.address == in.addr, "C06.accessmap.verdict-to-response-code");
    VP_WITNESS(in.code == REG_ACCESS_READONLY, "C06.accessmap.reach");
    (void)tcp;
    return;
#else
    VP_ASSUME(in.mem16 <= 1 && in.ws16 <= 1 && in.hd <= 1 && in.plc <= 1 && in.npl <= PW);
    VP_ASSUME(in.bs.status <= RP_RESP_EIO);
    for (unsigned i = 0; i < 8; ++i)
        vp_al.garbage[i] = in.garbage[i];
    vp_regp_setup(tcp, in.mem16);
    vp_bs = in.bs;

    /* ---- a valid frame, by construction */
    struct ref_frame g = { 0 };
    const unsigned ws = in.ws16 ? 2 : 1;
    unsigned npl = in.npl;
    g.seq = in.seq;
    g.addr = in.addr;
#if defined(MODE_REQ)
#if defined(REQ_READ)
    VP_ASSUME(in.type == RP_FRAME_READ_REQUEST);
#elif defined(REQ_WRITE)
    VP_ASSUME(in.type == RP_FRAME_WRITE_REQUEST);
#else
    VP_ASSUME(in.type == RP_FRAME_READ_REQUEST || in.type == RP_FRAME_WRITE_REQUEST);
#endif
    g.type = in.type;
    if (g.type == RP_FRAME_READ_REQUEST) {
        g.bs = in.nreq;
        npl = 0;
    } else {
        g.bs = npl;
    }
#elif defined(MODE_NONREQ)
    VP_ASSUME(in.type == RP_FRAME_READ_RESPONSE || in.type == RP_FRAME_WRITE_RESPONSE || in.type == RP_FRAME_META);
    g.type = in.type;
    if (g.type == RP_FRAME_META) {
        VP_ASSUME(in.meta >= 1 && in.meta <= 2);
        npl = 0;
    } else {
        VP_ASSUME(in.meta <= RP_RESP_EIO);
    }
    g.meta = in.meta;
    g.bs = npl;
#else
#error "no MODE"
#endif
    g.plen = (uint16_t)(npl * ws);
    for (unsigned i = 0; i < PLMAX; ++i)
        g.pl[i] = (i < g.plen) ? in.pl[i] : 0;
    g.options = (uint8_t)((in.ws16 ? RP_OPT_WORD_SIZE_16 : 0) | (in.hd ? RP_OPT_WITH_HEADER_CRC : 0) |
                          (in.plc ? RP_OPT_WITH_PAYLOAD_CRC : 0));
    uint8_t G[LMAX + 4] = { 0 };
    const unsigned glen = ref_encode(&g, G);
    VP_ASSUME(glen <= LMAX);
    vp_rx.len = (uint8_t)glen;
    for (unsigned i = 0; i < LMAX; ++i)
        vp_rx.oct[i] = (i < glen) ? G[i] : 0;
    vp_rx.err_after = 0xff;

    RPMaybeFrame mf;
    const int rc = regp_recv(&vp_p, &mf);
    VP_ASSERT(rc == 0 && mf.error.id == 0 && mf.frame != NULL, "C06.valid-frame-received");
    VP_ASSERT(vp_tx_frames == 0, "C06.no-reply-from-recv");
    const int rcp = regp_process(&vp_p, &mf);
    VP_ASSERT(rcp == 0, "C06.process-returns-zero");

#if defined(MODE_NONREQ)
    VP_ASSERT(vp_bl.calls == 0, "C06.nonrequest.no-memory-access");
    VP_ASSERT(vp_tx_frames == 0, "C06.nonrequest.no-reply");
    VP_WITNESS(g.type == RP_FRAME_READ_RESPONSE && g.plen == 4 && in.plc && !in.hd, "C06.nonrequest.response.reach");
    VP_WITNESS(g.type == RP_FRAME_META && in.hd, "C06.nonrequest.meta.reach");
#else
    /* ---- expected reply */
    struct ref_frame e = { 0 };
    const bool rd = (g.type == RP_FRAME_READ_REQUEST);
    e.type = rd ? RP_FRAME_READ_RESPONSE : RP_FRAME_WRITE_RESPONSE;
    e.seq = g.seq;
    e.addr = g.addr;
    const uint8_t transport_hd = tcp ? 0 : RP_OPT_WITH_HEADER_CRC;
    const uint8_t transport_pl = tcp ? 0 : RP_OPT_WITH_PAYLOAD_CRC;
    const unsigned mws = in.mem16 ? 2 : 1;
    /* room for a read's answer: must be refused when it exceeds the whole
     * buffer behind the frame structure, must be executed when it fits behind
     * the request header; in between either (buffer extent is asserted by the
     * backend stub in any case) */
    const uint64_t want_octets = (uint64_t)g.bs * mws;
    const bool must_overflow = rd && want_octets > KEXTRA;
    const bool must_execute = !rd || want_octets + glen <= KEXTRA;
    uint8_t code;
    bool executed = false;
    if (in.ws16 != in.mem16) {
        code = RP_RESP_EWORDSIZE;
        VP_ASSERT(vp_bl.calls == 0, "C06.wordsize-mismatch-memory-untouched");
    } else if (must_overflow || (!must_execute && vp_bl.calls == 0)) {
        code = RP_RESP_ETXOVERFLOW;
        VP_ASSERT(vp_bl.calls == 0, "C06.read-too-large-memory-untouched");
    } else {
        executed = true;
        code = in.bs.status;
        VP_ASSERT(vp_bl.calls == 1, "C06.exactly-one-memory-access");
        VP_ASSERT(vp_bl.kind == (rd ? 0 : 1) + (in.mem16 ? 2 : 0), "C06.access-kind-matches-request-and-memory");
        VP_ASSERT(vp_bl.address == g.addr && vp_bl.n == g.bs, "C06.access-address-and-block-size");
        if (!rd)
            for (unsigned i = 0; i < PLMAX; ++i)
                if (i < g.plen)
                    VP_ASSERT(vp_bl.payload[i] == g.pl[i], "C06.write-hands-over-exactly-the-payload");
    }
    e.meta = code;
    switch (code) {
    case RP_RESP_ACK:
        /* acknowledgement: memory's word size; the words the backend delivered */
        e.options = (uint8_t)((in.mem16 ? RP_OPT_WORD_SIZE_16 : 0) | transport_hd);
        if (rd) {
            e.bs = g.bs;
            e.plen = (uint16_t)want_octets;
            for (unsigned i = 0; i < TXMAX; ++i)
                if (i < e.plen && i < KEXTRA)
                    e.pl[i] = in.bs.data[i];
            if (e.plen)
                e.options |= transport_pl;
        }
        break;
    case RP_RESP_EUNMAPPED: case RP_RESP_EACCESS: case RP_RESP_ERANGE: case RP_RESP_EINVALID:
    case RP_RESP_ERXOVERFLOW: case RP_RESP_ETXOVERFLOW: {
        /* octet semantics, four-octet big-endian payload */
        const uint32_t v = (code == RP_RESP_ERXOVERFLOW || code == RP_RESP_ETXOVERFLOW) ? (uint32_t)KEXTRA
                                                                                         : in.bs.address;
        e.options = (uint8_t)(transport_hd | transport_pl);
        e.bs = 4;
        e.plen = 4;
        e.pl[0] = (uint8_t)(v >> 24); e.pl[1] = (uint8_t)(v >> 16); e.pl[2] = (uint8_t)(v >> 8); e.pl[3] = (uint8_t)v;
        break;
    }
    default: /* EWORDSIZE, EPAYLOADCRC, EPAYLOADSIZE, EBUSY, EIO: no payload */
        e.options = transport_hd;
        break;
    }
    VP_ASSERT(vp_tx_frames == 1, "C06.exactly-one-response");
    VP_ASSERT(tx_is(vp_tx, &e, tcp), "C06.response-is-the-prescribed-frame");

#if !defined(REQ_WRITE)
    VP_WITNESS(executed && rd && code == RP_RESP_ACK && g.bs == 3 && in.mem16, "C06.read-ack-16bit.reach");
    VP_WITNESS(executed && rd && code == RP_RESP_EIO, "C06.read-eio.reach");
    VP_WITNESS(code == RP_RESP_ETXOVERFLOW && !executed && g.bs > 0x10000u, "C06.txoverflow.reach");
    VP_WITNESS(executed && rd && want_octets + glen == KEXTRA, "C06.read-exactly-fits.reach");
#endif
#if !defined(REQ_READ)
    VP_WITNESS(executed && !rd && code == RP_RESP_ACK && g.plen == PLMAX && in.plc && !in.hd, "C06.write-ack.reach");
    VP_WITNESS(executed && !rd && code == RP_RESP_ERANGE && in.bs.address == 0x01020304u, "C06.write-erange.reach");
#endif
    VP_WITNESS(code == RP_RESP_EWORDSIZE && !executed, "C06.wordsize.reach");
#endif
    regp_free(&vp_p, mf.frame);
    VP_ASSERT(vp_ledger_balanced() && vp_al.allocs == 1 && vp_al.frees == 1, "C06.block-released-exactly-once");
#endif
}
VP_MAIN_EPILOGUE()
