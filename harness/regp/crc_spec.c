/* CRC-16/ARC as its bit-serial definition (reflected 0x8005 = 0xA001, no final
 * xor), with the library's four entry points. Linked INSTEAD of the table
 * driven src/crc-16-arc.c in the CBMC runs of the protocol harnesses (C06-C09):
 * a 256-entry table look-up with a symbolic index costs ~30x more in SAT than
 * eight shift/xor rounds. That the real code computes exactly this function
 * for every (state, octet) pair, and that the 16-bit-word variant equals the
 * octet variant over the words' in-memory image, is what C16 proves on the
 * real src/crc-16-arc.c. Replays link the real file. */
#ifndef VP_REPLAY
#include <stddef.h>
#include <stdint.h>
#include <ufw/crc/crc16-arc.h>

static inline uint16_t step(uint16_t crc, uint8_t o)
{
    crc ^= o;
    crc = (crc & 1u) ? (uint16_t)((crc >> 1) ^ 0xA001u) : (uint16_t)(crc >> 1);
    crc = (crc & 1u) ? (uint16_t)((crc >> 1) ^ 0xA001u) : (uint16_t)(crc >> 1);
    crc = (crc & 1u) ? (uint16_t)((crc >> 1) ^ 0xA001u) : (uint16_t)(crc >> 1);
    crc = (crc & 1u) ? (uint16_t)((crc >> 1) ^ 0xA001u) : (uint16_t)(crc >> 1);
    crc = (crc & 1u) ? (uint16_t)((crc >> 1) ^ 0xA001u) : (uint16_t)(crc >> 1);
    crc = (crc & 1u) ? (uint16_t)((crc >> 1) ^ 0xA001u) : (uint16_t)(crc >> 1);
    crc = (crc & 1u) ? (uint16_t)((crc >> 1) ^ 0xA001u) : (uint16_t)(crc >> 1);
    crc = (crc & 1u) ? (uint16_t)((crc >> 1) ^ 0xA001u) : (uint16_t)(crc >> 1);
    return crc;
}

uint16_t ufw_crc16_arc(uint16_t crc, const void *buffer, size_t n)
{
    const uint8_t *src = buffer;
    while (n > 0) {
        crc = step(crc, *src);
        src++;
        n--;
    }
    return crc;
}

uint16_t ufw_buffer_crc16_arc(const void *buffer, size_t len)
{
    return ufw_crc16_arc(CRC16_ARC_INITIAL, buffer, len);
}

uint16_t ufw_crc16_arc_u16(uint16_t crc, const uint16_t *buffer, size_t len)
{
    /* little-endian host: in-memory octet order */
    while (len > 0) {
        crc = step(crc, (uint8_t)(*buffer & 0xffu));
        crc = step(crc, (uint8_t)(*buffer >> 8));
        buffer++;
        len--;
    }
    return crc;
}

uint16_t ufw_buffer_crc16_arc_u16(const uint16_t *buffer, size_t len)
{
    return ufw_crc16_arc_u16(CRC16_ARC_INITIAL, buffer, len);
}
#endif
