/* regp_common.h -- shared by the C06..C09 harnesses (register protocol).
 *
 * The real src/register-protocol.c is #include'd (static parse/encode helpers
 * are reachable); continuable-sink.c, byte-buffer.c, allocator.c, crc-16-arc.c
 * and endpoints/core.c are linked unchanged.
 *
 * The FRAMING LAYER is replaced by its contract (DESIGN.md 2.4): the stubs
 * below stand for rfc1055_decode / flenp_decode_source_to_sink (deliver the
 * deframed frame octet by octet through sink_put_octet, then report success;
 * or return a source error after a prefix) and rfc1055_encode /
 * flenp_chunks_to_sink / source_from_chunks (record which framer was selected,
 * with which mode/kind, and the concatenation of the chunk list's unread
 * octets). Those contracts are what C12 / C13 / C17 establish on the real
 * rfc1055.c / length-prefix.c / endpoints code.
 */
#ifndef VP_REGP_COMMON_H
#define VP_REGP_COMMON_H

#include <vp.h>
#include <string.h>

#include <register-protocol.c> /* the real implementation, from /repo/src */

#ifndef LMAX
#define LMAX 20 /* longest deframed frame the rx stub can deliver */
#endif
#ifndef KEXTRA
#define KEXTRA 32 /* allocator block = sizeof(RPFrame) + KEXTRA octets */
#endif
#ifndef PW
#define PW 2 /* payload words of generated frames */
#endif
#define PLMAX (2 * PW)       /* payload octets */
#define TXMAX (16 + KEXTRA)  /* longest frame the library can emit from one block */
#define BLOCKSIZE (sizeof(RPFrame) + KEXTRA)

/* -------------------------------------------------------------- allocator */

struct vp_alloc_state {
    unsigned allocs, granted, frees, outstanding;
    bool double_free, foreign_free;
    bool fail_next[4]; /* script: does allocation k fail? */
    uint8_t garbage[8]; /* a fresh block holds arbitrary octets (pattern repeated) */
};
static struct vp_alloc_state vp_al;

#ifdef VP_REPLAY
static void *vp_block_ptr;
#else
static union {
    RPFrame align;
    unsigned char raw[BLOCKSIZE];
} vp_block;
#endif

static int vp_alloc(void *driver, void **m, size_t n)
{
    (void)driver;
    unsigned k = vp_al.allocs < 4 ? vp_al.allocs : 3;
    vp_al.allocs++;
    if (vp_al.fail_next[k] || vp_al.outstanding > 0 || n != BLOCKSIZE) {
        *m = NULL;
        return -ENOMEM;
    }
    vp_al.outstanding = 1;
    vp_al.granted++;
#ifdef VP_REPLAY
    vp_block_ptr = malloc(BLOCKSIZE); /* exact extent for ASan */
    *m = vp_block_ptr;
#else
    *m = vp_block.raw;
#endif
#ifdef VP_REPLAY
    for (size_t i = 0; i < BLOCKSIZE; ++i)
        ((unsigned char *)*m)[i] = vp_al.garbage[i & 7u];
#endif
    return 0;
}

static void vp_free(void *driver, void *m)
{
    (void)driver;
    vp_al.frees++;
#ifdef VP_REPLAY
    if (m != vp_block_ptr) { vp_al.foreign_free = true; return; }
#else
    if (m != (void *)vp_block.raw) { vp_al.foreign_free = true; return; }
#endif
    if (vp_al.outstanding == 0) { vp_al.double_free = true; return; }
    vp_al.outstanding = 0;
#ifdef VP_REPLAY
    free(vp_block_ptr);
    vp_block_ptr = NULL;
#endif
}

static BlockAllocator vp_allocator = MAKE_GENERIC_BLOCKALLOC(NULL, vp_alloc, vp_free, BLOCKSIZE);

/* ------------------------------------------------------------ memory backend */

struct vp_backend_script {
    uint8_t status;   /* RPResponse the backend answers with (0..15: incl. undefined codes) */
    uint32_t address; /* address it reports */
    uint8_t data[KEXTRA]; /* octets a read delivers */
};

struct vp_backend_log {
    unsigned calls;
    uint8_t kind; /* 0 read8, 1 write8, 2 read16, 3 write16 */
    uint32_t address;
    size_t n;
    bool buf_ok;
    uint8_t payload[KEXTRA]; /* octet image of what a write was handed */
};
static struct vp_backend_script vp_bs;
static struct vp_backend_log vp_bl;

static RPBlockAccess vp_backend(uint8_t kind, uint32_t address, size_t n, void *buf)
{
    RPBlockAccess rv;
    const size_t ws = (kind >= 2) ? 2u : 1u;
    vp_bl.calls++;
    vp_bl.kind = kind;
    vp_bl.address = address;
    vp_bl.n = n;
    /* the buffer must be able to hold / provide the whole announced block */
    vp_bl.buf_ok = (n == 0) || (buf != NULL && ((kind & 1u) ? VP_R_OK(buf, n * ws) : VP_W_OK(buf, n * ws)));
    VP_ASSERT(vp_bl.buf_ok, "REGP.backend-buffer-covers-announced-block");
    unsigned char *p = buf;
    if (vp_bl.buf_ok) {
        for (size_t i = 0; i < KEXTRA; ++i) {
            if (i >= n * ws)
                break;
            if (kind & 1u)
                vp_bl.payload[i] = p[i];
            else
                p[i] = vp_bs.data[i];
        }
#ifdef VP_REPLAY
        /* touch the whole announced block so ASan sees an undersized buffer */
        for (size_t i = KEXTRA; i < n * ws; ++i) {
            if (kind & 1u) { volatile unsigned char c = p[i]; (void)c; } else p[i] = 0;
        }
#endif
    }
    rv.status = (RPResponse)vp_bs.status;
    rv.address = vp_bs.address;
    return rv;
}

static RPBlockAccess vp_read8(uint32_t a, size_t n, uint8_t *b) { return vp_backend(0, a, n, b); }
static RPBlockAccess vp_write8(uint32_t a, size_t n, const uint8_t *b) { return vp_backend(1, a, n, (void *)b); }
static RPBlockAccess vp_read16(uint32_t a, size_t n, uint16_t *b) { return vp_backend(2, a, n, b); }
static RPBlockAccess vp_write16(uint32_t a, size_t n, const uint16_t *b) { return vp_backend(3, a, n, (void *)b); }

#ifndef VP_REAL_FRAMING /* integration instances link the real framing code instead */
/* ------------------------------------------------------------- framing stubs */

struct vp_rx_script {
    uint8_t len;          /* deframed frame length, <= LMAX */
    uint8_t oct[LMAX];
    uint8_t err_after;    /* if < len: the source fails after this many octets */
    int32_t err;          /* ... with this (negative) value */
    uint8_t split;        /* VP_RX_CHUNKED: the frame arrives as two chunks oct[0..split) oct[split..len) */
};
static struct vp_rx_script vp_rx;
static unsigned vp_rx_calls;

/* Contract of both deframers towards regp_recv: octets are handed to the sink
 * one by one (sink_put_octet); a sink error is returned unchanged; a source
 * error ends the call with that error. */
static ssize_t vp_deliver(Sink *sink)
{
    vp_rx_calls++;
#ifdef VP_RX_CHUNKED
    /* A source with the getbuffer extension makes sts_n() hand the sink whole
     * chunks (sink_put_chunk) instead of single octets; that is the other way
     * the real length-prefix deframer can deliver. Two chunks, split anywhere. */
    {
        const unsigned s0 = vp_rx.split < vp_rx.len ? vp_rx.split : vp_rx.len;
        if (s0 > 0) {
            const ssize_t r = sink_put_chunk(sink, vp_rx.oct, s0);
            if (r < 0)
                return r;
        }
        if (vp_rx.len - s0 > 0) {
            const ssize_t r = sink_put_chunk(sink, vp_rx.oct + s0, vp_rx.len - s0);
            if (r < 0)
                return r;
        }
        return (ssize_t)vp_rx.len;
    }
#endif
    for (unsigned i = 0; i < LMAX; ++i) {
        if (i >= vp_rx.len)
            break;
        if (i == vp_rx.err_after)
            return vp_rx.err;
        const int rc = sink_put_octet(sink, vp_rx.oct[i]);
        if (rc < 0)
            return rc;
    }
    if (vp_rx.err_after == vp_rx.len && vp_rx.err < 0 && vp_rx.len < LMAX)
        return vp_rx.err; /* error at the very end (e.g. missing delimiter) */
    return (ssize_t)vp_rx.len;
}

static unsigned vp_rx_framer; /* 1 = SLIP, 2 = length prefix */
static bool vp_rx_mode_ok = true;

int rfc1055_decode(RFC1055Context *ctx, Source *source, Sink *sink)
{
    (void)source;
    vp_rx_framer = 1;
    if (ctx->flags != RFC1055_DEFAULT || ctx->state != RFC1055_NORMAL)
        vp_rx_mode_ok = false; /* protocol document: classic SLIP */
    ssize_t rc = vp_deliver(sink);
    return rc < 0 ? (int)rc : 1;
}

ssize_t flenp_decode_source_to_sink(const LengthPrefixKind k, Source *source, Sink *sink)
{
    (void)source;
    vp_rx_framer = 2;
    if (k != LENP_VARIABLE)
        vp_rx_mode_ok = false; /* protocol document: varint length prefix */
    return vp_deliver(sink);
}

struct vp_tx_frame {
    /* the library hands the framer a chunk list of (header[, payload]). The
     * header (always a local array of the emitter) and the first four payload
     * octets (send_resp_32 passes a local) are copied at once; longer payloads
     * live in the frame block or in caller memory and are compared through the
     * recorded pointer while that memory is still alive. Only the FIRST frame
     * is recorded in detail (no flow may emit two); all are counted. */
    unsigned hlen, plen;
    uint8_t hdr[16];
    uint8_t pl4[4];
    const uint8_t *plptr;
    uint8_t framer; /* 1 = SLIP classic, 2 = varint length prefix, 0x80 | x = wrong mode */
    bool overflow;
};
static struct vp_tx_frame vp_tx0;
#define vp_tx (&vp_tx0)
static unsigned vp_tx_frames;
static int32_t vp_tx_err; /* 0, or the (negative) error the sink side reports */

static void vp_record_chunks(uint8_t framer, const ByteChunks *c)
{
    vp_tx_frames++;
    if (vp_tx_frames != 1)
        return;
    vp_tx0.framer = framer;
    vp_tx0.hlen = vp_tx0.plen = 0;
    vp_tx0.plptr = NULL;
    if (c->active != 0 || c->chunks < 1 || c->chunks > 2) {
        vp_tx0.overflow = true;
        return;
    }
    const ByteBuffer *h = &c->chunk[0];
    const size_t hn = h->used - h->offset;
    if (hn > 16) {
        vp_tx0.overflow = true;
        return;
    }
    for (size_t j = 0; j < 16; ++j)
        if (j < hn)
            vp_tx0.hdr[j] = h->data[h->offset + j];
    vp_tx0.hlen = (unsigned)hn;
    if (c->chunks == 2) {
        const ByteBuffer *b = &c->chunk[1];
        const size_t pn = b->used - b->offset;
        if (pn > TXMAX) {
            vp_tx0.overflow = true;
            return;
        }
        for (size_t j = 0; j < 4; ++j)
            if (j < pn)
                vp_tx0.pl4[j] = b->data[b->offset + j];
        vp_tx0.plptr = b->data + b->offset;
        vp_tx0.plen = (unsigned)pn;
    }
}

void source_from_chunks(Source *instance, ByteChunks *chunks)
{
    /* only the identity of the chunk list matters to the stubbed encoder */
    instance->kind = DATA_KIND_CHUNK;
    instance->driver = chunks;
    instance->source.chunk = NULL;
    instance->ext.getbuffer = NULL;
}

int rfc1055_encode(const RFC1055Context *ctx, Source *source, Sink *sink)
{
    (void)sink;
    vp_record_chunks((ctx->flags == RFC1055_DEFAULT) ? 1 : (0x80 | 1), (const ByteChunks *)source->driver);
    return vp_tx_err < 0 ? vp_tx_err : 0;
}

ssize_t flenp_chunks_to_sink(const LengthPrefixKind k, Sink *sink, ByteChunks *oc)
{
    (void)sink;
    vp_record_chunks((k == LENP_VARIABLE) ? 2 : (0x80 | 2), oc);
    return vp_tx_err < 0 ? vp_tx_err : 1;
}

#endif /* !VP_REAL_FRAMING */

/* ------------------------------------------------------ instance under test */

static RegP vp_p;

static void vp_regp_setup(bool tcp, bool mem16)
{
#ifndef VP_REPLAY
    /* a fresh block holds arbitrary octets (filled once, here, instead of in
     * vp_alloc, which symex inlines at every delivered octet) */
    for (size_t i = 0; i < BLOCKSIZE; ++i)
        vp_block.raw[i] = vp_al.garbage[i & 7u];
#endif
    regp_init(&vp_p);
    if (mem16)
        regp_use_memory16(&vp_p, vp_read16, vp_write16);
    else
        regp_use_memory8(&vp_p, vp_read8, vp_write8);
    Source so = OCTET_SOURCE_INIT(NULL, NULL);
    Sink si = OCTET_SINK_INIT(NULL, NULL);
    regp_use_channel(&vp_p, tcp ? RP_EP_TCP : RP_EP_SERIAL, so, si);
    regp_use_allocator(&vp_p, &vp_allocator);
}

/* --------------------------------------------- reference wire format (Appendix A) */

struct ref_frame {
    uint8_t type;    /* 0,1,2,3,15 */
    uint8_t options; /* 4 bits */
    uint8_t meta;    /* 4 bits */
    uint16_t seq;
    uint32_t addr;
    uint32_t bs;
    uint16_t hdcrc, plcrc; /* as found on the wire (decode) */
    uint16_t plen;         /* payload octets */
    uint8_t pl[LMAX > TXMAX ? LMAX : TXMAX];
};

/* CRC-16/ARC: the library's own octet routine; C16 checks it against the
 * bit-serial definition, so using it here adds nothing to the trusted base and
 * keeps the solver from having to prove two CRC circuits equivalent. */
static uint16_t ref_crc(uint16_t c, const uint8_t *p, size_t n) { return ufw_crc16_arc(c, p, n); }

/* header image (12..16 octets) with the checksums the document prescribes for
 * the option bits; the payload image is f->pl[0..plen) */
static unsigned ref_encode_header(const struct ref_frame *f, uint8_t *out)
{
    const bool hd = f->options & RP_OPT_WITH_HEADER_CRC, plc = f->options & RP_OPT_WITH_PAYLOAD_CRC;
    out[0] = (uint8_t)((f->meta << 4) | (f->options & 0x0f));
    out[1] = (uint8_t)((f->type << 4) | 0);
    out[2] = (uint8_t)(f->seq >> 8); out[3] = (uint8_t)f->seq;
    out[4] = (uint8_t)(f->addr >> 24); out[5] = (uint8_t)(f->addr >> 16);
    out[6] = (uint8_t)(f->addr >> 8); out[7] = (uint8_t)f->addr;
    out[8] = (uint8_t)(f->bs >> 24); out[9] = (uint8_t)(f->bs >> 16);
    out[10] = (uint8_t)(f->bs >> 8); out[11] = (uint8_t)f->bs;
    out[12] = out[13] = out[14] = out[15] = 0;
    const uint16_t pcrc = plc ? ref_crc(0, f->pl, f->plen) : 0;
    if (hd && plc) {
        out[14] = (uint8_t)(pcrc >> 8); out[15] = (uint8_t)pcrc;
        uint16_t c = ref_crc(0, out, 12);
        c = ref_crc(c, out + 14, 2);
        out[12] = (uint8_t)(c >> 8); out[13] = (uint8_t)c;
        return 16;
    }
    if (hd) {
        uint16_t c = ref_crc(0, out, 12);
        out[12] = (uint8_t)(c >> 8); out[13] = (uint8_t)c;
        return 14;
    }
    if (plc) {
        out[12] = (uint8_t)(pcrc >> 8); out[13] = (uint8_t)pcrc;
        return 14;
    }
    return 12;
}

/* whole frame image: header then payload */
static unsigned ref_encode(const struct ref_frame *f, uint8_t *out)
{
    uint8_t h[16];
    unsigned n = ref_encode_header(f, h);
    for (unsigned i = 0; i < 16; ++i)
        if (i < n)
            out[i] = h[i];
    /* payload follows at a header-length dependent position: three cases */
    for (unsigned i = 0; i < sizeof f->pl; ++i) {
        if (i >= f->plen)
            break;
        if (n == 12) out[12 + i] = f->pl[i];
        else if (n == 14) out[14 + i] = f->pl[i];
        else out[16 + i] = f->pl[i];
    }
    return n + f->plen;
}

#ifndef VP_REAL_FRAMING
/* did the library emit exactly frame f (header image + payload octets) through
 * the right framer? (payloads longer than four octets are read through the
 * recorded pointer: call this while that memory is alive) */
static bool tx_is(const struct vp_tx_frame *t, const struct ref_frame *f, bool tcp)
{
    uint8_t h[16];
    unsigned n = ref_encode_header(f, h);
    if (t->overflow || t->hlen != n || t->plen != f->plen || t->framer != (tcp ? 2 : 1))
        return false;
    for (unsigned i = 0; i < 16; ++i)
        if (i < n && t->hdr[i] != h[i])
            return false;
    for (unsigned i = 0; i < sizeof f->pl; ++i) {
        if (i >= f->plen)
            break;
        uint8_t got = (i < 4) ? t->pl4[i] : t->plptr[i];
        if (got != f->pl[i])
            return false;
    }
    return true;
}

#endif /* !VP_REAL_FRAMING */

/* verdicts */
#define REF_OK 0
#define REF_BADHEADER 1 /* EBADMSG  */
#define REF_BADHDCRC 2  /* EILSEQ   */
#define REF_BADSIZE 3   /* EFAULT   */
#define REF_BADPLCRC 4  /* EPROTO   */
#define REF_SIZE_EITHER 5 /* payload-free WRITE-RESPONSE/META with non-zero block size: OK or BADSIZE */

static int ref_errno(int v)
{
    switch (v) {
    case REF_OK: return 0;
    case REF_BADHEADER: return EBADMSG;
    case REF_BADHDCRC: return EILSEQ;
    case REF_BADSIZE: return EFAULT;
    default: return EPROTO;
    }
}

/* independent reading of doc/regp.txt; order: header encoding, header CRC,
 * payload size, payload CRC (regp_recv's documented contract) */
static int ref_classify(const uint8_t *o, unsigned len, struct ref_frame *f)
{
    if (len < 12)
        return REF_BADHEADER;
    f->meta = o[0] >> 4;
    f->options = o[0] & 0x0f;
    f->type = o[1] >> 4;
    const unsigned version = o[1] & 0x0f;
    f->seq = (uint16_t)((o[2] << 8) | o[3]);
    f->addr = ((uint32_t)o[4] << 24) | ((uint32_t)o[5] << 16) | ((uint32_t)o[6] << 8) | o[7];
    f->bs = ((uint32_t)o[8] << 24) | ((uint32_t)o[9] << 16) | ((uint32_t)o[10] << 8) | o[11];
    f->hdcrc = f->plcrc = 0;
    if (version != 0)
        return REF_BADHEADER;
    if (f->options & 0x8)
        return REF_BADHEADER;
    switch (f->type) {
    case RP_FRAME_READ_REQUEST: case RP_FRAME_WRITE_REQUEST:
        if (f->meta != 0) return REF_BADHEADER;
        break;
    case RP_FRAME_READ_RESPONSE: case RP_FRAME_WRITE_RESPONSE:
        if (f->meta > RP_RESP_EIO) return REF_BADHEADER;
        break;
    case RP_FRAME_META:
        if (f->meta < 1 || f->meta > 2) return REF_BADHEADER;
        break;
    default:
        return REF_BADHEADER;
    }
    const bool hd = f->options & RP_OPT_WITH_HEADER_CRC, plc = f->options & RP_OPT_WITH_PAYLOAD_CRC;
    const unsigned hlen = 12 + (hd ? 2 : 0) + (plc ? 2 : 0);
    if (len < hlen)
        return REF_BADHEADER;
    unsigned off = 12;
    if (hd) { f->hdcrc = (uint16_t)((o[off] << 8) | o[off + 1]); off += 2; }
    if (plc) { f->plcrc = (uint16_t)((o[off] << 8) | o[off + 1]); off += 2; }
    if (hd) {
        uint16_t c = ref_crc(0, o, 12);
        if (plc)
            c = ref_crc(c, o + 14, 2);
        if (c != f->hdcrc)
            return REF_BADHDCRC;
    }
    f->plen = (uint16_t)(len - hlen);
    for (unsigned i = 0; i < sizeof f->pl; ++i) {
        if (i >= f->plen)
            break;
        f->pl[i] = o[hlen + i];
    }
    const unsigned ws = (f->options & RP_OPT_WORD_SIZE_16) ? 2 : 1;
    if (f->plen % ws != 0)
        return REF_BADSIZE;
    /* "The Block Size parameter specifies the size of a message's payload,
     * except for READ-REQUEST messages", which carry none */
    if (f->type == RP_FRAME_READ_REQUEST) {
        if (f->plen != 0)
            return REF_BADSIZE;
    } else if ((uint64_t)f->bs * ws != f->plen) {
        return REF_BADSIZE;
    }
    if (plc && ref_crc(0, f->pl, f->plen) != f->plcrc)
        return REF_BADPLCRC;
    return REF_OK;
}

/* expected reply for a refused request: error response without payload,
 * octet semantics, echoing sequence number and address */
static struct ref_frame expect_error_reply(const struct ref_frame *rq, uint8_t code, bool tcp)
{
    struct ref_frame r = { 0 };
    r.type = (rq->type == RP_FRAME_READ_REQUEST) ? RP_FRAME_READ_RESPONSE : RP_FRAME_WRITE_RESPONSE;
    r.meta = code;
    r.options = tcp ? 0 : RP_OPT_WITH_HEADER_CRC;
    r.seq = rq->seq;
    r.addr = rq->addr;
    return r;
}

static struct ref_frame expect_meta(uint8_t code, bool tcp)
{
    struct ref_frame r = { 0 };
    r.type = RP_FRAME_META;
    r.meta = code;
    r.options = tcp ? 0 : RP_OPT_WITH_HEADER_CRC;
    return r;
}

static bool ref_is_request(uint8_t type)
{
    return type == RP_FRAME_READ_REQUEST || type == RP_FRAME_WRITE_REQUEST;
}

static bool vp_ledger_balanced(void)
{
    return !vp_al.double_free && !vp_al.foreign_free && vp_al.outstanding == 0;
}

#endif /* VP_REGP_COMMON_H */
