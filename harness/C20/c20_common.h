/* C20 common part: allocator ledger, exact-size input object, reference lexer.
 *
 * The real src/sx.c is pulled into the harness translation unit (unchanged
 * text) with malloc/calloc/free renamed to the ledger functions below:
 *
 *  - CBMC mode: no dynamic objects (DESIGN.md 2.3). Nodes, pairs and symbol
 *    strings come from three small static pools (bump allocation, no reuse);
 *    every slot has a state (unused / live / freed) so that leaks, double
 *    frees and frees of foreign pointers are visible. Fresh malloc() memory
 *    is filled with an arbitrary octet from the input (calloc() memory with
 *    zero), so reliance on uninitialised memory shows.
 *  - Replay mode: the real malloc/calloc/free (ASan sees the true extents)
 *    with the same counters and the same junk fill.
 *
 * The pools are selected by request size only, so an implementation that
 * allocates differently is still executed correctly (only less efficiently).
 * A request that does not fit the pools is reported as an exceeded bound
 * ("unwinding assertion": inconclusive, never a pass, never a violation).
 */
#ifndef C20_COMMON_H
#define C20_COMMON_H

#include <vp.h>

#include <ctype.h>
#include <stdio.h>
#include <stdlib.h>
#include <string.h>

#include <ufw/sx.h>

#ifndef LEN
#define LEN 3
#endif
#ifndef NNODES
#define NNODES 1
#endif
#ifndef NPAIRS
#define NPAIRS 1
#endif
#ifndef NSYMS
#define NSYMS 1
#endif
#define SYMSZ (LEN + 1)

static int vp_live;          /* allocations not yet freed */
static int vp_allocs;        /* allocations made */
static int vp_bad_free;      /* free() of something that is not a live block */
static unsigned char vp_junk; /* fill octet of fresh malloc() memory */

#ifdef VP_REPLAY

static void *
vp_malloc(size_t n)
{
    void *p = malloc(n);
    if (p != NULL) {
        memset(p, vp_junk, n);
        vp_live++;
        vp_allocs++;
    }
    return p;
}

static void *
vp_calloc(size_t a, size_t b)
{
    void *p = calloc(a, b);
    if (p != NULL) {
        vp_live++;
        vp_allocs++;
    }
    return p;
}

static void
vp_free(void *p)
{
    if (p != NULL) {
        vp_live--;
        free(p); /* ASan reports double / foreign frees */
    }
}

#define VP_POOL_EXCEEDED() \
    do {                   \
    } while (0)

#else /* CBMC mode */

enum { VP_SLOT_UNUSED = 0, VP_SLOT_LIVE = 1, VP_SLOT_FREED = 2 };

static struct sx_node vp_node_pool[NNODES];
static struct sx_pair vp_pair_pool[NPAIRS];
static char vp_sym_pool[NSYMS][SYMSZ];
static unsigned char vp_node_state[NNODES];
static unsigned char vp_pair_state[NPAIRS];
static unsigned char vp_sym_state[NSYMS];
static unsigned vp_node_next, vp_pair_next, vp_sym_next;

/* bound of the instance exceeded: classified like a loop bound (inconclusive) */
#define VP_POOL_EXCEEDED() \
    __CPROVER_assert(0, "unwinding assertion: C20 allocator pool bound of the instance exceeded")

static void *
vp_alloc(size_t n, bool zero)
{
    if (n == sizeof(struct sx_node) && !zero) {
        if (vp_node_next >= NNODES) {
            VP_POOL_EXCEEDED();
            __CPROVER_assume(0);
        }
        struct sx_node *p = &vp_node_pool[vp_node_next];
        vp_node_state[vp_node_next] = VP_SLOT_LIVE;
        vp_node_next++;
        p->type = (enum sx_node_type)(vp_junk * 0x01010101u);
        p->data.u64 = vp_junk * 0x0101010101010101ull;
        vp_live++;
        vp_allocs++;
        return p;
    }
    if (n == sizeof(struct sx_pair) && zero) {
        if (vp_pair_next >= NPAIRS) {
            VP_POOL_EXCEEDED();
            __CPROVER_assume(0);
        }
        struct sx_pair *p = &vp_pair_pool[vp_pair_next];
        vp_pair_state[vp_pair_next] = VP_SLOT_LIVE;
        vp_pair_next++;
        p->car = NULL;
        p->cdr = NULL;
        vp_live++;
        vp_allocs++;
        return p;
    }
    if (n > SYMSZ || vp_sym_next >= NSYMS) {
        VP_POOL_EXCEEDED();
        __CPROVER_assume(0);
    }
    char *p = vp_sym_pool[vp_sym_next];
    vp_sym_state[vp_sym_next] = VP_SLOT_LIVE;
    vp_sym_next++;
    for (size_t k = 0; k < SYMSZ; ++k)
        p[k] = zero ? 0 : (char)vp_junk;
    vp_live++;
    vp_allocs++;
    return p;
}

static void *
vp_malloc(size_t n)
{
    return vp_alloc(n, false);
}

static void *
vp_calloc(size_t a, size_t b)
{
    return vp_alloc(a * b, true);
}

/* slot lookup by object identity + offset (one symbolic array access instead
 * of one pointer comparison per slot: measured 30 k fewer SSA steps per
 * sx_destroy tree at 6 slots) */
#define VP_FREE_FROM(pool, state, elsize)                                        \
    if (__CPROVER_POINTER_OBJECT(p) == __CPROVER_POINTER_OBJECT((void *)(pool))) { \
        const size_t off = __CPROVER_POINTER_OFFSET(p);                          \
        const size_t k = off / (elsize);                                         \
        if (off % (elsize) != 0 || k >= sizeof(state) || (state)[k] != VP_SLOT_LIVE) { \
            vp_bad_free++;                                                       \
        } else {                                                                 \
            (state)[k] = VP_SLOT_FREED;                                          \
            vp_live--;                                                           \
        }                                                                        \
        return;                                                                  \
    }

static void
vp_free(void *p)
{
    if (p == NULL)
        return;
    VP_FREE_FROM(vp_node_pool, vp_node_state, sizeof(struct sx_node))
    VP_FREE_FROM(vp_pair_pool, vp_pair_state, sizeof(struct sx_pair))
    VP_FREE_FROM(vp_sym_pool, vp_sym_state, (size_t)SYMSZ)
    vp_bad_free++;
}

/* exact byte-loop strchr (the library's own model would be added after the
 * driver has mapped the per-function loop bounds) */
char *
strchr(const char *s, int c)
{
    for (size_t k = 0;; ++k) {
        if (s[k] == (char)c)
            return (char *)s + k;
        if (s[k] == '\0')
            return NULL;
    }
}

#endif /* VP_REPLAY */

/* ---- the real reader, unchanged text, with the allocator renamed ---- */
#define malloc vp_malloc
#define calloc vp_calloc
#define free vp_free
#include <src/sx.c>
#undef malloc
#undef calloc
#undef free

/* ---- exact-size input object ---------------------------------------- */
/* The text occupies an object of exactly LEN octets: no terminator, nothing
 * readable behind it (CBMC: array bounds; replay: ASan red zone). */
#ifdef VP_REPLAY
static char *
vp_exact_text(const char *src)
{
    char *p = malloc(LEN);
    if (p == NULL)
        exit(4);
    memcpy(p, src, LEN);
    return p;
}
#define vp_release_text(p) free(p)
#else
static char vp_text[LEN ? LEN : 1];
static char *
vp_exact_text(const char *src)
{
    for (size_t k = 0; k < LEN; ++k)
        vp_text[k] = src[k];
    return vp_text + (LEN ? 0 : 1);
}
#define vp_release_text(p) \
    do {                   \
    } while (0)
#endif

/* ---- reference lexer -------------------------------------------------- */
/* Lexical grammar the oracle assumes (sx.c file comment + its symbol
 * alphabet, stated in specs/C20.py as an assumption):
 *   whitespace   = C-locale isspace: ' ' \t \n \v \f \r
 *   delimiter    = '(' | ')' | whitespace | end of input
 *   decimal      = [0-9]+ delimiter
 *   hexadecimal  = "#x" [0-9a-fA-F]+ delimiter      (value in either case)
 *   symbol       = init (init | [0-9] | '-')* delimiter
 *   init         = [A-Za-z] | one of  + % | / _ : ; . ! ? $ & = * < > ~
 * Unspecified (the property text does not decide; every clean behaviour is
 * accepted): a NUL octet where a token starts, continues or must end; a token
 * starting with '-'; "#X". */

static bool
ref_isws(char c)
{
    return c == ' ' || c == '\t' || c == '\n' || c == '\v' || c == '\f' || c == '\r';
}

static bool
ref_isdelim(char c)
{
    return c == '(' || c == ')' || ref_isws(c);
}

static bool
ref_isdigit(char c)
{
    return c >= '0' && c <= '9';
}

static bool
ref_isxdigit(char c)
{
    return ref_isdigit(c) || (c >= 'a' && c <= 'f') || (c >= 'A' && c <= 'F');
}

static unsigned
ref_xval(char c)
{
    if (c >= '0' && c <= '9')
        return (unsigned)(c - '0');
    if (c >= 'a' && c <= 'f')
        return (unsigned)(c - 'a') + 10u;
    return (unsigned)(c - 'A') + 10u;
}

static bool
ref_issyminit(char c)
{
    if ((c >= 'a' && c <= 'z') || (c >= 'A' && c <= 'Z'))
        return true;
    switch (c) {
    case '+': case '%': case '|': case '/': case '_': case ':': case ';':
    case '.': case '!': case '?': case '$': case '&': case '=': case '*':
    case '<': case '>': case '~':
        return true;
    default:
        return false;
    }
}

static bool
ref_issymch(char c)
{
    return ref_issyminit(c) || ref_isdigit(c) || c == '-';
}

enum ref_kind {
    R_BLANK,  /* only whitespace up to the end of the input */
    R_OPEN,   /* '(' */
    R_CLOSE,  /* ')' */
    R_INT,    /* complete integer token */
    R_SYM,    /* complete symbol token */
    R_BAD,    /* not a token of the language */
    R_UNSPEC  /* property text does not decide */
};

struct ref_tok {
    enum ref_kind kind;
    size_t start; /* first octet of the token (after whitespace) */
    size_t end;   /* just past the token */
    uint64_t value;
    bool hex_upper; /* a hexadecimal token with an upper-case digit */
};

/* how a token may end at position k */
static enum ref_kind
ref_end(const char *s, size_t n, size_t k, enum ref_kind good)
{
    if (k >= n || ref_isdelim(s[k]))
        return good;
    if (s[k] == '\0')
        return R_UNSPEC;
    return R_BAD;
}

static struct ref_tok
ref_token(const char *s, size_t n, size_t i)
{
    struct ref_tok t = { R_BLANK, 0, 0, 0, false };
    size_t j = i;
    while (j < n && ref_isws(s[j]))
        j++;
    t.start = j;
    t.end = j;
    if (j >= n)
        return t;
    const char c = s[j];
    if (c == '(') {
        t.kind = R_OPEN;
        t.end = j + 1;
    } else if (c == ')') {
        t.kind = R_CLOSE;
        t.end = j + 1;
    } else if (ref_isdigit(c)) {
        size_t k = j;
        uint64_t v = 0;
        while (k < n && ref_isdigit(s[k])) {
            v = v * 10u + (uint64_t)(s[k] - '0');
            k++;
        }
        t.kind = ref_end(s, n, k, R_INT);
        t.end = k;
        t.value = v;
    } else if (c == '#') {
        if (j + 1 < n && s[j + 1] == 'X') {
            t.kind = R_UNSPEC;
        } else if (j + 2 < n && s[j + 1] == 'x' && ref_isxdigit(s[j + 2])) {
            size_t k = j + 2;
            uint64_t v = 0;
            while (k < n && ref_isxdigit(s[k])) {
                v = v * 16u + ref_xval(s[k]);
                if (s[k] >= 'A' && s[k] <= 'F')
                    t.hex_upper = true;
                k++;
            }
            t.kind = ref_end(s, n, k, R_INT);
            t.end = k;
            t.value = v;
        } else {
            t.kind = R_BAD;
        }
    } else if (ref_issyminit(c)) {
        size_t k = j;
        while (k < n && ref_issymch(s[k]))
            k++;
        t.kind = ref_end(s, n, k, R_SYM);
        t.end = k;
    } else if (c == '\0' || c == '-') {
        t.kind = R_UNSPEC;
    } else {
        t.kind = R_BAD;
    }
    return t;
}

/* "error status" of the property: anything but success. */
static bool
c20_is_error(enum sx_status st)
{
    return st != SXS_SUCCESS;
}

#endif /* C20_COMMON_H */
