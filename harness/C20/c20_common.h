/* C20 common part: allocator ledger, exact-size input object, reference lexer.
 *
 * The real src/sx.c is pulled into the harness translation unit (unchanged
 * text) with malloc/calloc/free renamed to the ledger functions below:
 *
 *  - CBMC mode: no dynamic objects (DESIGN.md 2.3). Nodes, pairs and symbol
 *    strings come from three small static pools (bump allocation, no reuse);
 *    every slot has a state (unused / live / freed) so that leaks, double
 *    frees and frees of foreign pointers are visible. Fresh malloc() memory
 *    is filled with an arbitrary octet from the input (calloc() memory with
 *    zero), so reliance on uninitialised memory shows.
 *  - Replay mode: the real malloc/calloc/free (ASan sees the true extents)
 *    with the same counters and the same junk fill.
 *
 * The pools are selected by request size only, so an implementation that
 * allocates differently is still executed correctly (only less efficiently).
 * A request that does not fit the pools is reported as an exceeded bound
 * ("unwinding assertion": inconclusive, never a pass, never a violation).
 */
#ifndef C20_COMMON_H
#define C20_COMMON_H

#include <vp.h>

#include <ctype.h>
#include <stdio.h>
#include <stdlib.h>
#include <string.h>

#include <ufw/sx.h>

#ifndef LEN
#define LEN 3
#endif
#ifndef NNODES
#define NNODES 1
#endif
#ifndef NPAIRS
#define NPAIRS 1
#endif
#ifndef NSYMS
#define NSYMS 1
#endif
#define SYMSZ (LEN + 1)

static int vp_live;          /* allocations not yet freed */
static int vp_allocs;        /* allocations made */
static int vp_bad_free;      /* free() of something that is not a live block */
static unsigned char vp_junk; /* fill octet of fresh malloc() memory */

#ifdef VP_REPLAY

static void *
vp_malloc(size_t n)
{
    void *p = malloc(n);
    if (p != NULL) {
        memset(p, vp_junk, n);
        vp_live++;
        vp_allocs++;
    }
    return p;
}

static void *
vp_calloc(size_t a, size_t b)
{
    void *p = calloc(a, b);
    if (p != NULL) {
        vp_live++;
        vp_allocs++;
    }
    return p;
}

static void
vp_free(void *p)
{
    if (p != NULL) {
        vp_live--;
        free(p); /* ASan reports double / foreign frees */
    }
}

#define VP_POOL_EXCEEDED() \
    do {                   \
    } while (0)

/* harness-side access: the real pointers (ASan checks them) */
#define vp_node_view(p) ((const struct sx_node *)(p))
#define vp_pair_view(p) ((const struct sx_pair *)(p))
#define vp_sym_view(p) ((const char *)(p))
#define vp_sym_block_size(p) ((size_t)-1) /* ASan knows */
#define vp_canaries_ok() true

#else /* CBMC mode */

enum { VP_SLOT_UNUSED = 0, VP_SLOT_LIVE = 1, VP_SLOT_FREED = 2 };

/* Pools are arrays, but a slot is always addressed with a CONSTANT index
 * (chosen by a chain of comparisons on the bump counter), never with a
 * symbolic one. Measured / observed with cbmc 6.11:
 *  - symbolic index: a store to a union member at a symbolic array index is
 *    encoded as a byte-wise update of the whole array (4-6 M variables for
 *    ONE list step at LEN 1);
 *  - one object per slot (or malloc): a store through a pointer that was read
 *    from a union member of one of SEVERAL objects is silently lost
 *    (`c->data.pair->car = a` with c in {n0, n1, n2}: all pointer checks pass,
 *    the value goes to an "invalid_object"; reproducer:
 *    cbmc_union_store_repro.c in this directory), so that model is not usable;
 *  - constant index into one array, index chosen at run time: stores arrive
 *    (the tree comparisons of the list instances would fail otherwise) and
 *    the encoding is cheap;
 *  - the same with a FULLY concrete text (every slot index a compile-time
 *    constant for symex): the pointer stored in the union is folded to an
 *    integer and the store through it is lost again. That is why there are
 *    no fixed-text instances. A lost store shows as a spurious failure that
 *    does not replay (reported UNCONFIRMED, exit 2), not as a silent pass. */
#define VP_MAXSLOTS 16
#if NNODES > VP_MAXSLOTS || NPAIRS > VP_MAXSLOTS || NSYMS > VP_MAXSLOTS
#error "pool bound above VP_MAXSLOTS"
#endif
#define VP_SLOT_ADDRS(name)                                                    \
    { &name[0], &name[1], &name[2], &name[3], &name[4], &name[5], &name[6],    \
      &name[7], &name[8], &name[9], &name[10], &name[11], &name[12], &name[13], \
      &name[14], &name[15] }

/* An octet block of n octets is the LAST n octets of its slot's c[], followed
 * by two canary octets: a write just past the requested size is visible
 * (vp_canaries_ok) although the pool is one object for CBMC's bounds check. */
struct vp_symslot {
    char c[SYMSZ];
    unsigned char canary[2];
};
static struct sx_node vp_node_[VP_MAXSLOTS];
static struct sx_pair vp_pair_[VP_MAXSLOTS];
static struct vp_symslot vp_sym_[VP_MAXSLOTS];
static unsigned char vp_node_state[VP_MAXSLOTS];
static unsigned char vp_pair_state[VP_MAXSLOTS];
static unsigned char vp_sym_state[VP_MAXSLOTS];
static unsigned char vp_sym_size[VP_MAXSLOTS]; /* requested size of the block */
static unsigned vp_node_next, vp_pair_next, vp_sym_next;

/* bound of the instance exceeded: classified like a loop bound (inconclusive) */
#define VP_POOL_EXCEEDED() \
    __CPROVER_assert(0, "unwinding assertion: C20 allocator pool bound of the instance exceeded")

/* slot k of at most n (n is a compile-time constant: slots >= n fold away, so
 * the pointer's value set has exactly n members) */
#define VP_PICK(name, k, n)                                                    \
    ((n) > 15 && (k) == 15 ? (void *)&name[15] :                               \
     (n) > 14 && (k) == 14 ? (void *)&name[14] :                               \
     (n) > 13 && (k) == 13 ? (void *)&name[13] :                               \
     (n) > 12 && (k) == 12 ? (void *)&name[12] :                               \
     (n) > 11 && (k) == 11 ? (void *)&name[11] :                               \
     (n) > 10 && (k) == 10 ? (void *)&name[10] :                               \
     (n) > 9 && (k) == 9 ? (void *)&name[9] :                                  \
     (n) > 8 && (k) == 8 ? (void *)&name[8] :                                  \
     (n) > 7 && (k) == 7 ? (void *)&name[7] :                                  \
     (n) > 6 && (k) == 6 ? (void *)&name[6] :                                  \
     (n) > 5 && (k) == 5 ? (void *)&name[5] :                                  \
     (n) > 4 && (k) == 4 ? (void *)&name[4] :                                  \
     (n) > 3 && (k) == 3 ? (void *)&name[3] :                                  \
     (n) > 2 && (k) == 2 ? (void *)&name[2] :                                  \
     (n) > 1 && (k) == 1 ? (void *)&name[1] : (void *)&name[0])

/* One function per kind of block, so that the pointer a call site receives
 * can only point to blocks of that kind (value sets are per return value). */
static void *
vp_alloc_node(void)
{
    if (vp_node_next >= NNODES) {
        VP_POOL_EXCEEDED();
        __CPROVER_assume(0);
    }
    struct sx_node *p = VP_PICK(vp_node_, vp_node_next, NNODES);
    vp_node_state[vp_node_next] = VP_SLOT_LIVE;
    vp_node_next++;
    p->type = (enum sx_node_type)(vp_junk * 0x01010101u);
    p->data.u64 = vp_junk * 0x0101010101010101ull;
    vp_live++;
    vp_allocs++;
    return p;
}

static void *
vp_alloc_pair(void)
{
    if (vp_pair_next >= NPAIRS) {
        VP_POOL_EXCEEDED();
        __CPROVER_assume(0);
    }
    struct sx_pair *p = VP_PICK(vp_pair_, vp_pair_next, NPAIRS);
    vp_pair_state[vp_pair_next] = VP_SLOT_LIVE;
    vp_pair_next++;
    p->car = NULL;
    p->cdr = NULL;
    vp_live++;
    vp_allocs++;
    return p;
}

static void *
vp_alloc_bytes(size_t n, bool zero)
{
    if (n > SYMSZ || vp_sym_next >= NSYMS) {
        VP_POOL_EXCEEDED();
        __CPROVER_assume(0);
    }
    struct vp_symslot *p = VP_PICK(vp_sym_, vp_sym_next, NSYMS);
    vp_sym_state[vp_sym_next] = VP_SLOT_LIVE;
    vp_sym_size[vp_sym_next] = (unsigned char)n;
    vp_sym_next++;
    for (size_t k = 0; k < SYMSZ; ++k)
        p->c[k] = zero ? 0 : (char)vp_junk;
    p->canary[0] = 0xA5;
    p->canary[1] = 0x5A;
    vp_live++;
    vp_allocs++;
    return p->c + (SYMSZ - n);
}

/* The request sizes in sx.c are compile-time constants, so the selection
 * below folds to a single call; with a run-time size both kinds stay possible
 * (still exact, only more expensive). Blocks of the node's size are typed as
 * nodes when malloc'ed and as pairs when calloc'ed; anything else is octets. */
#define vp_malloc(n) \
    ((n) == sizeof(struct sx_node) ? vp_alloc_node() : vp_alloc_bytes((n), false))
#define vp_calloc(a, b) \
    ((size_t)(a) * (b) == sizeof(struct sx_pair) && (b) != 1u ? vp_alloc_pair() \
                                                           : vp_alloc_bytes((size_t)(a) * (b), true))

static void
vp_free_slot(unsigned char *state, unsigned k)
{
    if (state[k] == VP_SLOT_LIVE) {
        state[k] = VP_SLOT_FREED;
        vp_live--;
    } else {
        vp_bad_free++;
    }
}

static void
vp_free(void *p)
{
    if (p == NULL)
        return;
    static void *const nodes[VP_MAXSLOTS] = VP_SLOT_ADDRS(vp_node_);
    static void *const pairs[VP_MAXSLOTS] = VP_SLOT_ADDRS(vp_pair_);
    for (unsigned k = 0; k < NNODES; ++k)
        if (p == nodes[k]) {
            vp_free_slot(vp_node_state, k);
            return;
        }
    for (unsigned k = 0; k < NPAIRS; ++k)
        if (p == pairs[k]) {
            vp_free_slot(vp_pair_state, k);
            return;
        }
    for (unsigned k = 0; k < NSYMS; ++k)
        if (p == (void *)(vp_sym_[k].c + (SYMSZ - vp_sym_size[k]))) {
            vp_free_slot(vp_sym_state, k);
            return;
        }
    vp_bad_free++;
}

/* Harness-side access to blocks the code under test produced. The harness
 * never dereferences a pointer it read from a node's union directly: CBMC's
 * value set for such a pointer is the union of everything ever stored in any
 * member (and "unknown" for the integer member), which turns every access
 * into a byte-wise case split over foreign objects (measured: +1.3 M
 * variables per level of sx_destroy recursion). Instead the pointer is
 * compared with the slot addresses and the slot is accessed by name. */
static int
vp_index_in(const void *p, void *const *tab, unsigned n)
{
    int r = -1;
    for (unsigned k = 0; k < n; ++k)
        if (p == tab[k])
            r = (int)k;
    return r;
}

static const struct sx_node *
vp_node_view(const struct sx_node *p)
{
    static void *const tab[VP_MAXSLOTS] = VP_SLOT_ADDRS(vp_node_);
    const int k = vp_index_in(p, tab, NNODES);
    if (k < 0 || vp_node_state[k] != VP_SLOT_LIVE)
        return NULL;
    return (const struct sx_node *)VP_PICK(vp_node_, k, NNODES);
}

static const struct sx_pair *
vp_pair_view(const struct sx_pair *p)
{
    static void *const tab[VP_MAXSLOTS] = VP_SLOT_ADDRS(vp_pair_);
    const int k = vp_index_in(p, tab, NPAIRS);
    if (k < 0 || vp_pair_state[k] != VP_SLOT_LIVE)
        return NULL;
    return (const struct sx_pair *)VP_PICK(vp_pair_, k, NPAIRS);
}

static const char *
vp_sym_view(const char *p)
{
    int k = -1;
    for (unsigned j = 0; j < NSYMS; ++j)
        if (p == vp_sym_[j].c + (SYMSZ - vp_sym_size[j]))
            k = (int)j;
    if (k < 0 || vp_sym_state[k] != VP_SLOT_LIVE)
        return NULL;
    return ((const struct vp_symslot *)VP_PICK(vp_sym_, k, NSYMS))->c + (SYMSZ - vp_sym_size[k]);
}

/* octets the code under test asked for in the block p points to (0: not a block) */
static size_t
vp_sym_block_size(const char *p)
{
    size_t n = 0;
    for (unsigned j = 0; j < NSYMS; ++j)
        if (p == vp_sym_[j].c + (SYMSZ - vp_sym_size[j]))
            n = vp_sym_size[j];
    return n;
}

/* nothing was written just past an octet block */
static bool
vp_canaries_ok(void)
{
    bool ok = true;
    for (unsigned j = 0; j < NSYMS; ++j)
        if (vp_sym_state[j] != VP_SLOT_UNUSED
            && (vp_sym_[j].canary[0] != 0xA5 || vp_sym_[j].canary[1] != 0x5A))
            ok = false;
    return ok;
}

/* exact byte-loop strchr (the library's own model would be added after the
 * driver has mapped the per-function loop bounds) */
char *
strchr(const char *s, int c)
{
    for (size_t k = 0;; ++k) {
        if (s[k] == (char)c)
            return (char *)s + k;
        if (s[k] == '\0')
            return NULL;
    }
}

#endif /* VP_REPLAY */

/* ---- sx_destroy by contract (list-layer instances) -------------------- */
/* Contract of sx_destroy(&h): h == NULL: nothing happens; otherwise every
 * block of the tree h owns (nodes, pair cells, symbol strings; absent
 * children allowed) is released exactly once and h is cleared. The function
 * below IS that contract, executed on the ledger. c20_destroy.c proves, by
 * structural induction, that the real sx_destroy body satisfies it. A
 * malformed argument (shared or foreign blocks) shows as vp_bad_free / a
 * leak in the caller's final assertions.
 *
 * An "opaque subtree" (only c20_destroy.c creates them) is a node that stands
 * for an arbitrary owned subtree of 1 + extra blocks. */
static const void *vp_opaque_node[2];
static unsigned vp_opaque_extra[2];

static int
vp_opaque_index(const void *p)
{
    if (p != NULL && p == vp_opaque_node[0])
        return 0;
    if (p != NULL && p == vp_opaque_node[1])
        return 1;
    return -1;
}

#define C20_DSTACK (NNODES + 1)

static void
c20_destroy_contract(struct sx_node **h)
{
    struct sx_node *stack[C20_DSTACK];
    unsigned sp = 0;
    if (*h == NULL)
        return;
    stack[sp++] = *h;
    for (unsigned step = 0; step < NNODES; ++step) { /* one node per step */
        if (sp == 0)
            break;
        struct sx_node *raw = stack[--sp];
        const int o = vp_opaque_index(raw);
        const struct sx_node *x = vp_node_view(raw);
        if (x == NULL) { /* not a live node: foreign pointer or double release */
            vp_bad_free++;
            continue;
        }
        if (o >= 0) {
            vp_live -= (int)vp_opaque_extra[o];
        } else if (x->type == SXT_PAIR) {
            const struct sx_pair *pp = vp_pair_view(x->data.pair);
            if (pp == NULL) {
                vp_bad_free++;
            } else {
                if (pp->cdr != NULL && sp < C20_DSTACK)
                    stack[sp++] = pp->cdr;
                if (pp->car != NULL && sp < C20_DSTACK)
                    stack[sp++] = pp->car;
                vp_free(x->data.pair);
            }
        } else if (x->type == SXT_SYMBOL) {
            vp_free(x->data.symbol);
        }
        vp_free(raw);
    }
    if (sp != 0)
        VP_POOL_EXCEEDED(); /* more nodes than the instance's bound */
    *h = NULL;
}

/* ---- the real reader, unchanged text, with the allocator renamed ---- */
#define C20_CAT_(a, b) a##b
#define C20_CAT(a, b) C20_CAT_(a, b)
#ifdef C20_DESTROY_BY_CONTRACT
/* Every call of sx_destroy inside sx.c (recursive ones included) goes to the
 * contract; the definition keeps its body under the name c20_real_sx_destroy.
 * Mechanism: each occurrence of the identifier is renamed to c20_sxd_<k>, k
 * counting occurrences; the FIRST occurrence in sx.c is the definition (the
 * prototype comes from <ufw/sx.h>, which was read before). If sx.c ever
 * uses sx_destroy before defining it, this no longer compiles (reported as
 * inconclusive), it cannot mis-verify. */
#if __COUNTER__ != 0
#error "__COUNTER__ already used: cannot number the occurrences of sx_destroy"
#endif
#define C20_SXD(k) \
    static void C20_CAT(c20_sxd_, k)(struct sx_node **h) { c20_destroy_contract(h); }
C20_SXD(2) C20_SXD(3) C20_SXD(4) C20_SXD(5) C20_SXD(6) C20_SXD(7) C20_SXD(8) C20_SXD(9)
C20_SXD(10) C20_SXD(11) C20_SXD(12) C20_SXD(13) C20_SXD(14) C20_SXD(15) C20_SXD(16)
#define c20_real_sx_destroy c20_sxd_1
#define sx_destroy C20_CAT(c20_sxd_, __COUNTER__)
#endif
#define malloc vp_malloc
#define calloc vp_calloc
#define free vp_free
#include <src/sx.c>
#undef malloc
#undef calloc
#undef free
#ifdef C20_DESTROY_BY_CONTRACT
#undef sx_destroy
#endif

/* ---- exact-size input object ---------------------------------------- */
/* The text occupies an object of exactly LEN octets: no terminator, nothing
 * readable behind it (CBMC: array bounds; replay: ASan red zone). */
#ifdef VP_REPLAY
static char *
vp_exact_text(const char *src)
{
    char *p = malloc(LEN);
    if (p == NULL)
        exit(4);
    memcpy(p, src, LEN);
    return p;
}
#define vp_release_text(p) free(p)
#else
static char vp_text[LEN ? LEN : 1];
static char *
vp_exact_text(const char *src)
{
    for (size_t k = 0; k < LEN; ++k)
        vp_text[k] = src[k];
    return vp_text + (LEN ? 0 : 1);
}
#define vp_release_text(p) \
    do {                   \
    } while (0)
#endif

/* ---- reference lexer -------------------------------------------------- */
/* Lexical grammar the oracle assumes (sx.c file comment + its symbol
 * alphabet, stated in specs/C20.py as an assumption):
 *   whitespace   = C-locale isspace: ' ' \t \n \v \f \r
 *   delimiter    = '(' | ')' | whitespace | end of input
 *   decimal      = [0-9]+ delimiter
 *   hexadecimal  = "#x" [0-9a-fA-F]+ delimiter      (value in either case)
 *   symbol       = init (init | [0-9] | '-')* delimiter
 *   init         = [A-Za-z] | one of  + % | / _ : ; . ! ? $ & = * < > ~
 * Unspecified (the property text does not decide; every clean behaviour is
 * accepted): a NUL octet where a token starts, continues or must end; a token
 * starting with '-'; "#X". */

static bool
ref_isws(char c)
{
    return c == ' ' || c == '\t' || c == '\n' || c == '\v' || c == '\f' || c == '\r';
}

static bool
ref_isdelim(char c)
{
    return c == '(' || c == ')' || ref_isws(c);
}

static bool
ref_isdigit(char c)
{
    return c >= '0' && c <= '9';
}

static bool
ref_isxdigit(char c)
{
    return ref_isdigit(c) || (c >= 'a' && c <= 'f') || (c >= 'A' && c <= 'F');
}

static unsigned
ref_xval(char c)
{
    if (c >= '0' && c <= '9')
        return (unsigned)(c - '0');
    if (c >= 'a' && c <= 'f')
        return (unsigned)(c - 'a') + 10u;
    return (unsigned)(c - 'A') + 10u;
}

static bool
ref_issyminit(char c)
{
    if ((c >= 'a' && c <= 'z') || (c >= 'A' && c <= 'Z'))
        return true;
    switch (c) {
    case '+': case '%': case '|': case '/': case '_': case ':': case ';':
    case '.': case '!': case '?': case '$': case '&': case '=': case '*':
    case '<': case '>': case '~':
        return true;
    default:
        return false;
    }
}

static bool
ref_issymch(char c)
{
    return ref_issyminit(c) || ref_isdigit(c) || c == '-';
}

enum ref_kind {
    R_BLANK,  /* only whitespace up to the end of the input */
    R_OPEN,   /* '(' */
    R_CLOSE,  /* ')' */
    R_INT,    /* complete integer token */
    R_SYM,    /* complete symbol token */
    R_BAD,    /* not a token of the language */
    R_UNSPEC  /* property text does not decide */
};

struct ref_tok {
    enum ref_kind kind;
    size_t start; /* first octet of the token (after whitespace) */
    size_t end;   /* just past the token */
    uint64_t value;
    bool hex_upper; /* a hexadecimal token with an upper-case digit */
};

/* how a token may end at position k */
static enum ref_kind
ref_end(const char *s, size_t n, size_t k, enum ref_kind good)
{
    if (k >= n || ref_isdelim(s[k]))
        return good;
    if (s[k] == '\0')
        return R_UNSPEC;
    return R_BAD;
}

static struct ref_tok
ref_token(const char *s, size_t n, size_t i)
{
    struct ref_tok t = { R_BLANK, 0, 0, 0, false };
    size_t j = i;
    while (j < n && ref_isws(s[j]))
        j++;
    t.start = j;
    t.end = j;
    if (j >= n)
        return t;
    const char c = s[j];
    if (c == '(') {
        t.kind = R_OPEN;
        t.end = j + 1;
    } else if (c == ')') {
        t.kind = R_CLOSE;
        t.end = j + 1;
    } else if (ref_isdigit(c)) {
        size_t k = j;
        uint64_t v = 0;
        while (k < n && ref_isdigit(s[k])) {
            v = v * 10u + (uint64_t)(s[k] - '0');
            k++;
        }
        t.kind = ref_end(s, n, k, R_INT);
        t.end = k;
        t.value = v;
    } else if (c == '#') {
        if (j + 1 < n && s[j + 1] == 'X') {
            t.kind = R_UNSPEC;
        } else if (j + 2 < n && s[j + 1] == 'x' && ref_isxdigit(s[j + 2])) {
            size_t k = j + 2;
            uint64_t v = 0;
            while (k < n && ref_isxdigit(s[k])) {
                v = v * 16u + ref_xval(s[k]);
                if (s[k] >= 'A' && s[k] <= 'F')
                    t.hex_upper = true;
                k++;
            }
            t.kind = ref_end(s, n, k, R_INT);
            t.end = k;
            t.value = v;
        } else {
            t.kind = R_BAD;
        }
    } else if (ref_issyminit(c)) {
        size_t k = j;
        while (k < n && ref_issymch(s[k]))
            k++;
        t.kind = ref_end(s, n, k, R_SYM);
        t.end = k;
    } else if (c == '\0' || c == '-') {
        t.kind = R_UNSPEC;
    } else {
        t.kind = R_BAD;
    }
    return t;
}

/* "error status" of the property: anything but success. */
static bool
c20_is_error(enum sx_status st)
{
    return st != SXS_SUCCESS;
}

#endif /* C20_COMMON_H */
