/* C20 common part: allocator ledger, exact-size input object, reference lexer.
 *
 * The real src/sx.c is pulled into the harness translation unit (unchanged
 * text) with malloc/calloc/free renamed to the ledger functions below:
 *
 *  - CBMC mode: no dynamic objects (DESIGN.md 2.3). Nodes, pairs and symbol
 *    strings come from three small static pools (bump allocation, no reuse);
 *    every slot has a state (unused / live / freed) so that leaks, double
 *    frees and frees of foreign pointers are visible. Fresh malloc() memory
 *    is filled with an arbitrary octet from the input (calloc() memory with
 *    zero), so reliance on uninitialised memory shows.
 *  - Replay mode: the real malloc/calloc/free (ASan sees the true extents)
 *    with the same counters and the same junk fill.
 *
 * The pools are selected by request size only, so an implementation that
 * allocates differently is still executed correctly (only less efficiently).
 * A request that does not fit the pools is reported as an exceeded bound
 * ("unwinding assertion": inconclusive, never a pass, never a violation).
 */
#ifndef C20_COMMON_H
#define C20_COMMON_H

#include <vp.h>

#include <ctype.h>
#include <stdio.h>
#include <stdlib.h>
#include <string.h>

#include <ufw/sx.h>

#ifndef LEN
#define LEN 3
#endif
#ifndef NNODES
#define NNODES 1
#endif
#ifndef NPAIRS
#define NPAIRS 1
#endif
#ifndef NSYMS
#define NSYMS 1
#endif
#define SYMSZ (LEN + 1)

static int vp_live;          /* allocations not yet freed */
static int vp_allocs;        /* allocations made */
static int vp_bad_free;      /* free() of something that is not a live block */
static unsigned char vp_junk; /* fill octet of fresh malloc() memory */

#ifdef VP_REPLAY

static void *
vp_malloc(size_t n)
{
    void *p = malloc(n);
    if (p != NULL) {
        memset(p, vp_junk, n);
        vp_live++;
        vp_allocs++;
    }
    return p;
}

static void *
vp_calloc(size_t a, size_t b)
{
    void *p = calloc(a, b);
    if (p != NULL) {
        vp_live++;
        vp_allocs++;
    }
    return p;
}

static void
vp_free(void *p)
{
    if (p != NULL) {
        vp_live--;
        free(p); /* ASan reports double / foreign frees */
    }
}

#define VP_POOL_EXCEEDED() \
    do {                   \
    } while (0)

#else /* CBMC mode */

enum { VP_SLOT_UNUSED = 0, VP_SLOT_LIVE = 1, VP_SLOT_FREED = 2 };

/* Every slot is an object of its own (not an element of a pool array): a
 * store through an allocated pointer then is a choice between whole objects
 * at offset 0. With pool arrays the slot index is symbolic after the first
 * branch, and CBMC encodes a store to a union member at a symbolic array
 * index as a byte-wise update of the whole array (measured: 4-6 M variables
 * for ONE list step at LEN 1). */
#define VP_MAXSLOTS 12
#if NNODES > VP_MAXSLOTS || NPAIRS > VP_MAXSLOTS || NSYMS > VP_MAXSLOTS
#error "pool bound above VP_MAXSLOTS"
#endif
#define VP_SLOTS(T, name)                                                      \
    static T name##0, name##1, name##2, name##3, name##4, name##5, name##6,    \
        name##7, name##8, name##9, name##10, name##11
#define VP_SLOT_ADDRS(name)                                                    \
    { &name##0, &name##1, &name##2, &name##3, &name##4, &name##5, &name##6,    \
      &name##7, &name##8, &name##9, &name##10, &name##11 }

struct vp_symslot {
    char c[SYMSZ];
};
VP_SLOTS(struct sx_node, vp_node_);
VP_SLOTS(struct sx_pair, vp_pair_);
VP_SLOTS(struct vp_symslot, vp_sym_);
static unsigned char vp_node_state[VP_MAXSLOTS];
static unsigned char vp_pair_state[VP_MAXSLOTS];
static unsigned char vp_sym_state[VP_MAXSLOTS];
static unsigned vp_node_next, vp_pair_next, vp_sym_next;

/* bound of the instance exceeded: classified like a loop bound (inconclusive) */
#define VP_POOL_EXCEEDED() \
    __CPROVER_assert(0, "unwinding assertion: C20 allocator pool bound of the instance exceeded")

/* slot k of at most n (n is a compile-time constant: slots >= n fold away, so
 * the pointer's value set has exactly n members) */
#define VP_PICK(name, k, n)                                                    \
    ((n) > 11 && (k) == 11 ? (void *)&name##11 :                               \
     (n) > 10 && (k) == 10 ? (void *)&name##10 :                               \
     (n) > 9 && (k) == 9 ? (void *)&name##9 :                                  \
     (n) > 8 && (k) == 8 ? (void *)&name##8 :                                  \
     (n) > 7 && (k) == 7 ? (void *)&name##7 :                                  \
     (n) > 6 && (k) == 6 ? (void *)&name##6 :                                  \
     (n) > 5 && (k) == 5 ? (void *)&name##5 :                                  \
     (n) > 4 && (k) == 4 ? (void *)&name##4 :                                  \
     (n) > 3 && (k) == 3 ? (void *)&name##3 :                                  \
     (n) > 2 && (k) == 2 ? (void *)&name##2 :                                  \
     (n) > 1 && (k) == 1 ? (void *)&name##1 : (void *)&name##0)

/* One function per kind of block, so that the pointer a call site receives
 * can only point to blocks of that kind (value sets are per return value). */
static void *
vp_alloc_node(void)
{
    if (vp_node_next >= NNODES) {
        VP_POOL_EXCEEDED();
        __CPROVER_assume(0);
    }
    struct sx_node *p = VP_PICK(vp_node_, vp_node_next, NNODES);
    vp_node_state[vp_node_next] = VP_SLOT_LIVE;
    vp_node_next++;
    p->type = (enum sx_node_type)(vp_junk * 0x01010101u);
    p->data.u64 = vp_junk * 0x0101010101010101ull;
    vp_live++;
    vp_allocs++;
    return p;
}

static void *
vp_alloc_pair(void)
{
    if (vp_pair_next >= NPAIRS) {
        VP_POOL_EXCEEDED();
        __CPROVER_assume(0);
    }
    struct sx_pair *p = VP_PICK(vp_pair_, vp_pair_next, NPAIRS);
    vp_pair_state[vp_pair_next] = VP_SLOT_LIVE;
    vp_pair_next++;
    p->car = NULL;
    p->cdr = NULL;
    vp_live++;
    vp_allocs++;
    return p;
}

static void *
vp_alloc_bytes(size_t n, bool zero)
{
    if (n > SYMSZ || vp_sym_next >= NSYMS) {
        VP_POOL_EXCEEDED();
        __CPROVER_assume(0);
    }
    struct vp_symslot *p = VP_PICK(vp_sym_, vp_sym_next, NSYMS);
    vp_sym_state[vp_sym_next] = VP_SLOT_LIVE;
    vp_sym_next++;
    for (size_t k = 0; k < SYMSZ; ++k)
        p->c[k] = zero ? 0 : (char)vp_junk;
    vp_live++;
    vp_allocs++;
    return p->c;
}

/* The request sizes in sx.c are compile-time constants, so the selection
 * below folds to a single call; with a run-time size both kinds stay possible
 * (still exact, only more expensive). Blocks of the node's size are typed as
 * nodes when malloc'ed and as pairs when calloc'ed; anything else is octets. */
#define vp_malloc(n) \
    ((n) == sizeof(struct sx_node) ? vp_alloc_node() : vp_alloc_bytes((n), false))
#define vp_calloc(a, b) \
    ((size_t)(a) * (b) == sizeof(struct sx_pair) && (b) != 1u ? vp_alloc_pair() \
                                                           : vp_alloc_bytes((size_t)(a) * (b), true))

static void
vp_free_slot(unsigned char *state, unsigned k)
{
    if (state[k] == VP_SLOT_LIVE) {
        state[k] = VP_SLOT_FREED;
        vp_live--;
    } else {
        vp_bad_free++;
    }
}

static void
vp_free(void *p)
{
    if (p == NULL)
        return;
    static void *const nodes[VP_MAXSLOTS] = VP_SLOT_ADDRS(vp_node_);
    static void *const pairs[VP_MAXSLOTS] = VP_SLOT_ADDRS(vp_pair_);
    static void *const syms[VP_MAXSLOTS] = VP_SLOT_ADDRS(vp_sym_);
    for (unsigned k = 0; k < NNODES; ++k)
        if (p == nodes[k]) {
            vp_free_slot(vp_node_state, k);
            return;
        }
    for (unsigned k = 0; k < NPAIRS; ++k)
        if (p == pairs[k]) {
            vp_free_slot(vp_pair_state, k);
            return;
        }
    for (unsigned k = 0; k < NSYMS; ++k)
        if (p == syms[k]) {
            vp_free_slot(vp_sym_state, k);
            return;
        }
    vp_bad_free++;
}

/* exact byte-loop strchr (the library's own model would be added after the
 * driver has mapped the per-function loop bounds) */
char *
strchr(const char *s, int c)
{
    for (size_t k = 0;; ++k) {
        if (s[k] == (char)c)
            return (char *)s + k;
        if (s[k] == '\0')
            return NULL;
    }
}

#endif /* VP_REPLAY */

/* ---- the real reader, unchanged text, with the allocator renamed ---- */
#define malloc vp_malloc
#define calloc vp_calloc
#define free vp_free
#include <src/sx.c>
#undef malloc
#undef calloc
#undef free

/* ---- exact-size input object ---------------------------------------- */
/* The text occupies an object of exactly LEN octets: no terminator, nothing
 * readable behind it (CBMC: array bounds; replay: ASan red zone). */
#ifdef VP_REPLAY
static char *
vp_exact_text(const char *src)
{
    char *p = malloc(LEN);
    if (p == NULL)
        exit(4);
    memcpy(p, src, LEN);
    return p;
}
#define vp_release_text(p) free(p)
#else
static char vp_text[LEN ? LEN : 1];
static char *
vp_exact_text(const char *src)
{
    for (size_t k = 0; k < LEN; ++k)
        vp_text[k] = src[k];
    return vp_text + (LEN ? 0 : 1);
}
#define vp_release_text(p) \
    do {                   \
    } while (0)
#endif

/* ---- reference lexer -------------------------------------------------- */
/* Lexical grammar the oracle assumes (sx.c file comment + its symbol
 * alphabet, stated in specs/C20.py as an assumption):
 *   whitespace   = C-locale isspace: ' ' \t \n \v \f \r
 *   delimiter    = '(' | ')' | whitespace | end of input
 *   decimal      = [0-9]+ delimiter
 *   hexadecimal  = "#x" [0-9a-fA-F]+ delimiter      (value in either case)
 *   symbol       = init (init | [0-9] | '-')* delimiter
 *   init         = [A-Za-z] | one of  + % | / _ : ; . ! ? $ & = * < > ~
 * Unspecified (the property text does not decide; every clean behaviour is
 * accepted): a NUL octet where a token starts, continues or must end; a token
 * starting with '-'; "#X". */

static bool
ref_isws(char c)
{
    return c == ' ' || c == '\t' || c == '\n' || c == '\v' || c == '\f' || c == '\r';
}

static bool
ref_isdelim(char c)
{
    return c == '(' || c == ')' || ref_isws(c);
}

static bool
ref_isdigit(char c)
{
    return c >= '0' && c <= '9';
}

static bool
ref_isxdigit(char c)
{
    return ref_isdigit(c) || (c >= 'a' && c <= 'f') || (c >= 'A' && c <= 'F');
}

static unsigned
ref_xval(char c)
{
    if (c >= '0' && c <= '9')
        return (unsigned)(c - '0');
    if (c >= 'a' && c <= 'f')
        return (unsigned)(c - 'a') + 10u;
    return (unsigned)(c - 'A') + 10u;
}

static bool
ref_issyminit(char c)
{
    if ((c >= 'a' && c <= 'z') || (c >= 'A' && c <= 'Z'))
        return true;
    switch (c) {
    case '+': case '%': case '|': case '/': case '_': case ':': case ';':
    case '.': case '!': case '?': case '$': case '&': case '=': case '*':
    case '<': case '>': case '~':
        return true;
    default:
        return false;
    }
}

static bool
ref_issymch(char c)
{
    return ref_issyminit(c) || ref_isdigit(c) || c == '-';
}

enum ref_kind {
    R_BLANK,  /* only whitespace up to the end of the input */
    R_OPEN,   /* '(' */
    R_CLOSE,  /* ')' */
    R_INT,    /* complete integer token */
    R_SYM,    /* complete symbol token */
    R_BAD,    /* not a token of the language */
    R_UNSPEC  /* property text does not decide */
};

struct ref_tok {
    enum ref_kind kind;
    size_t start; /* first octet of the token (after whitespace) */
    size_t end;   /* just past the token */
    uint64_t value;
    bool hex_upper; /* a hexadecimal token with an upper-case digit */
};

/* how a token may end at position k */
static enum ref_kind
ref_end(const char *s, size_t n, size_t k, enum ref_kind good)
{
    if (k >= n || ref_isdelim(s[k]))
        return good;
    if (s[k] == '\0')
        return R_UNSPEC;
    return R_BAD;
}

static struct ref_tok
ref_token(const char *s, size_t n, size_t i)
{
    struct ref_tok t = { R_BLANK, 0, 0, 0, false };
    size_t j = i;
    while (j < n && ref_isws(s[j]))
        j++;
    t.start = j;
    t.end = j;
    if (j >= n)
        return t;
    const char c = s[j];
    if (c == '(') {
        t.kind = R_OPEN;
        t.end = j + 1;
    } else if (c == ')') {
        t.kind = R_CLOSE;
        t.end = j + 1;
    } else if (ref_isdigit(c)) {
        size_t k = j;
        uint64_t v = 0;
        while (k < n && ref_isdigit(s[k])) {
            v = v * 10u + (uint64_t)(s[k] - '0');
            k++;
        }
        t.kind = ref_end(s, n, k, R_INT);
        t.end = k;
        t.value = v;
    } else if (c == '#') {
        if (j + 1 < n && s[j + 1] == 'X') {
            t.kind = R_UNSPEC;
        } else if (j + 2 < n && s[j + 1] == 'x' && ref_isxdigit(s[j + 2])) {
            size_t k = j + 2;
            uint64_t v = 0;
            while (k < n && ref_isxdigit(s[k])) {
                v = v * 16u + ref_xval(s[k]);
                if (s[k] >= 'A' && s[k] <= 'F')
                    t.hex_upper = true;
                k++;
            }
            t.kind = ref_end(s, n, k, R_INT);
            t.end = k;
            t.value = v;
        } else {
            t.kind = R_BAD;
        }
    } else if (ref_issyminit(c)) {
        size_t k = j;
        while (k < n && ref_issymch(s[k]))
            k++;
        t.kind = ref_end(s, n, k, R_SYM);
        t.end = k;
    } else if (c == '\0' || c == '-') {
        t.kind = R_UNSPEC;
    } else {
        t.kind = R_BAD;
    }
    return t;
}

/* "error status" of the property: anything but success. */
static bool
c20_is_error(enum sx_status st)
{
    return st != SXS_SUCCESS;
}

#endif /* C20_COMMON_H */
