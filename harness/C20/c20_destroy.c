/* C20, sx_destroy: one step of a structural induction over trees.
 *
 * The list-layer instances (c20_list.c) replace every call of sx_destroy by
 * its contract (c20_destroy_contract in c20_common.h). This harness proves
 * that the REAL body of sx_destroy satisfies that contract for an arbitrary
 * root node, assuming it for the children: the recursive calls inside the
 * body go to the contract, the children are opaque owned subtrees (a node with
 * arbitrary type and content standing for 1 + extra live blocks), absent
 * children (partial trees of failed parses) included. By induction on the
 * height, sx_destroy releases every block of every owned tree exactly once
 * and clears the handle.
 */
#define C20_DESTROY_BY_CONTRACT
#include "c20_common.h"

struct vp_in {
    uint8_t null_handle;     /* handle holds NULL */
    uint8_t type;            /* node type of the root */
    uint64_t value;          /* integer payload */
    char sym[LEN ? LEN : 1]; /* symbol text */
    uint8_t has_child[2];    /* car, cdr present */
    uint8_t child_type[2];   /* opaque children: any type ... */
    uint64_t child_data[2];  /* ... any content ... */
    uint8_t child_extra[2];  /* ... owning that many further blocks */
    uint8_t junk;
};
VP_DECLARE_INPUT();

void
harness(void)
{
    VP_INPUT(in);
    VP_ASSUME(in.type == SXT_SYMBOL || in.type == SXT_INTEGER || in.type == SXT_PAIR
              || in.type == SXT_EMPTY_LIST);
    VP_ASSUME(in.child_extra[0] <= 3 && in.child_extra[1] <= 3);
    vp_junk = in.junk;

    struct sx_node *h = NULL;
    if (!in.null_handle) {
        struct sx_node *root = vp_malloc(sizeof(struct sx_node));
        root->type = (enum sx_node_type)in.type;
        root->data.u64 = in.value;
        if (in.type == SXT_SYMBOL) {
            char *t = vp_calloc(SYMSZ, sizeof(char));
            for (size_t k = 0; k < LEN; ++k)
                t[k] = in.sym[k];
            root->data.symbol = t;
        } else if (in.type == SXT_PAIR) {
            struct sx_pair *p = vp_calloc(1u, sizeof(struct sx_pair));
            for (unsigned c = 0; c < 2; ++c) {
                struct sx_node *child = NULL;
                if (in.has_child[c]) {
                    child = vp_malloc(sizeof(struct sx_node));
                    child->type = (enum sx_node_type)in.child_type[c];
                    child->data.u64 = in.child_data[c];
                    vp_opaque_node[c] = child;
                    vp_opaque_extra[c] = in.child_extra[c];
                    vp_live += in.child_extra[c];
                }
                if (c == 0)
                    p->car = child;
                else
                    p->cdr = child;
            }
            root->data.pair = p;
        }
        h = root;
    }
    const int before = vp_live;

    c20_real_sx_destroy(&h);

    VP_ASSERT(h == NULL, "C20.destroy.clears-handle");
    VP_ASSERT(vp_live == 0, "C20.destroy.releases-every-block");
    VP_ASSERT(vp_bad_free == 0, "C20.destroy.releases-each-block-once");

    VP_WITNESS(in.type == SXT_PAIR && in.has_child[0] && in.has_child[1] && before == 2 + 2 + 3 + 1,
               "C20.destroy.pair-with-both-children.reach");
    VP_WITNESS(in.type == SXT_PAIR && !in.has_child[1] && in.has_child[0] && !in.null_handle,
               "C20.destroy.partial-pair.reach");
    VP_WITNESS(in.type == SXT_SYMBOL && before == 2, "C20.destroy.symbol.reach");
    VP_WITNESS(in.null_handle != 0, "C20.destroy.null-handle.reach");
}

VP_MAIN_EPILOGUE()
