/* C20, token layer: sx_parse_token() and sx_parse() on inputs whose first
 * token is not '(' (the list layer is c20_list.c).
 *
 * Input: an object of EXACTLY LEN octets (LEN is enumerated by the spec),
 * every octet arbitrary (all 256 values), start position i in 0..LEN.
 * OP (compile-time, enumerated by the spec): 0 = sx_parse_token(s, LEN, i),
 * 1 = sx_parse(s, LEN, i). Oracle: the reference lexer of c20_common.h.
 *
 * Property clauses decided here (for the stated LEN):
 *  - atoms: decimal / #x hexadecimal (either letter case) integers and
 *    symbols, after arbitrary whitespace, yield the right node and the
 *    position just past the token                 (C20.atom.*)
 *  - input that does not begin with a complete expression (blank, broken
 *    integer, broken symbol, unknown octet, stray ')') yields an error
 *    status, no node, no live allocation          (C20.bad-token-*, C20.parse.blank-is-error,
 *                                                  C20.parse.stray-close-*, C20.error-no-node,
 *                                                  C20.no-node-no-live-allocation)
 *  - no octet outside s[0..LEN) is read           (CBMC bounds/pointer checks on the
 *                                                  exact-size object; ASan in replay)
 *  - nothing is written past an allocation        (C20.no-write-past-allocation, C20.atom.sym-storage)
 *  - termination                                  (unwinding assertions)
 *  - sx_destroy releases what was returned        (C20.destroy.*)
 * How sx_parse_token reports '(' (SXS_FOUND_LIST, no node, position just
 * past) is asserted because the header publishes that status; how it reports
 * ')' is left open (internal to the list reader).
 */
#include "c20_common.h"

#ifndef OP
#define OP 0
#endif

struct vp_in {
    char s[LEN ? LEN : 1];
    uint8_t i;    /* start position of the token call */
    uint8_t junk; /* content of fresh malloc() memory */
};
VP_DECLARE_INPUT();

/* node must be the atom the reference lexer saw */
static void
check_atom(const struct sx_node *node, const char *s, const struct ref_tok *t)
{
    VP_ASSERT(node != NULL, "C20.atom.node-returned");
    if (node == NULL)
        return;
    if (t->kind == R_INT) {
        VP_ASSERT(node->type == SXT_INTEGER, "C20.atom.int-type");
        if (node->type == SXT_INTEGER)
            VP_ASSERT(node->data.u64 == t->value, "C20.atom.int-value");
    } else {
        const size_t len = t->end - t->start;
        VP_ASSERT(node->type == SXT_SYMBOL, "C20.atom.sym-type");
        if (node->type == SXT_SYMBOL) {
            const char *sym = vp_sym_view(node->data.symbol);
            VP_ASSERT(sym != NULL && vp_sym_block_size(node->data.symbol) >= len + 1,
                      "C20.atom.sym-storage");
            if (sym != NULL) {
                bool same = true;
                for (size_t k = 0; k < LEN; ++k)
                    if (k < len && sym[k] != s[t->start + k])
                        same = false;
                VP_ASSERT(same, "C20.atom.sym-text");
                VP_ASSERT(sym[len] == '\0', "C20.atom.sym-terminated");
            }
        }
    }
}

void
harness(void)
{
    VP_INPUT(in);
    VP_ASSUME(in.i <= LEN);
    vp_junk = in.junk;

    char *s = vp_exact_text(in.s);
    const size_t n = LEN;
    const size_t i = in.i;
    const struct ref_tok t = ref_token(s, n, i);

    /* the list layer has its own harness */
    if (OP == 1)
        VP_ASSUME(t.kind != R_OPEN);

    struct sx_parse_result r;
    /* OP is a compile-time parameter of the instance (a symbolic selector would
     * make both call trees part of every query: measured 5x the variables) */
#if OP == 0
    r = sx_parse_token(s, n, i);
#else
    r = sx_parse(s, n, i);
#endif

    /* ---- in all cases ---- */
    VP_ASSERT(!(c20_is_error(r.status) && r.status != SXS_FOUND_LIST) || r.node == NULL,
              "C20.error-no-node");
    VP_ASSERT(vp_bad_free == 0, "C20.no-bad-free");
    VP_ASSERT(vp_canaries_ok(), "C20.no-write-past-allocation");
    if (r.node == NULL)
        VP_ASSERT(vp_live == 0, "C20.no-node-no-live-allocation");

    switch (t.kind) {
    case R_INT:
    case R_SYM:
        VP_ASSERT(r.status == SXS_SUCCESS, "C20.atom.success");
        check_atom(r.node, s, &t);
        VP_ASSERT(r.position == t.end, "C20.atom.position-just-past");
#if LEN >= 3
        VP_WITNESS(t.kind == R_INT && t.hex_upper && t.end == LEN && i == 0,
                   "C20.hex-upper.reach");
#endif
#if LEN >= 2
        VP_WITNESS(t.kind == R_INT && !t.hex_upper && t.value == 9 && t.end < LEN,
                   "C20.dec-delimited.reach");
#endif
#if LEN >= 1
        VP_WITNESS(t.kind == R_SYM && t.end == LEN && t.start == 0,
                   "C20.sym-to-end.reach");
#endif
#if LEN >= 3
        VP_WITNESS(t.kind == R_SYM && t.start > 0 && t.end < LEN,
                   "C20.sym-after-ws.reach");
#endif
#if LEN >= 1
        VP_WITNESS(t.kind == R_INT && t.end == LEN, "C20.int-to-end.reach");
#endif
        break;
    case R_BAD:
        VP_ASSERT(c20_is_error(r.status) && r.status != SXS_FOUND_LIST, "C20.bad-token-is-error");
        VP_ASSERT(r.node == NULL, "C20.bad-token-no-node");
#if LEN >= 1
        VP_WITNESS(s[t.start] == '#', "C20.bad-hash.reach");
#endif
#if LEN >= 2
        VP_WITNESS(ref_isdigit(s[t.start]), "C20.broken-int.reach");
#endif
#if LEN >= 2
        VP_WITNESS(ref_issyminit(s[t.start]), "C20.broken-sym.reach");
#endif
        break;
    case R_BLANK:
        VP_ASSERT(r.node == NULL, "C20.blank-no-node");
        if (OP == 1)
            VP_ASSERT(c20_is_error(r.status), "C20.parse.blank-is-error");
        VP_WITNESS(i == 0, "C20.blank.reach");
#if LEN >= 1
        VP_WITNESS(i == 0 && LEN > 0, "C20.blank-nonempty.reach");
#endif
        break;
    case R_OPEN: /* token call only */
        VP_ASSERT(r.status == SXS_FOUND_LIST, "C20.token.open-announces-list");
        VP_ASSERT(r.node == NULL, "C20.token.open-no-node");
        VP_ASSERT(r.position == t.end, "C20.token.open-position");
#if LEN >= 2 && OP == 0
        VP_WITNESS(t.start > 0, "C20.token.open.reach");
#endif
        break;
    case R_CLOSE:
        if (OP == 1) {
            /* a stray ')' is not a complete expression */
            VP_ASSERT(c20_is_error(r.status), "C20.parse.stray-close-is-error");
            VP_ASSERT(r.node == NULL, "C20.parse.stray-close-no-node");
#if LEN >= 1 && OP == 1
            VP_WITNESS(true, "C20.parse.stray-close.reach");
#endif
        } else {
            /* how the token layer reports ')' to the list layer is internal;
             * only "a returned node is a well-formed empty list" is required */
            if (r.node != NULL)
                VP_ASSERT(r.node->type == SXT_EMPTY_LIST, "C20.token.close-node-shape");
            VP_ASSERT(r.position == t.end, "C20.token.close-position");
        }
        break;
    case R_UNSPEC:
    default:
        /* every clean behaviour accepted */
        break;
    }

    /* whatever was returned can be released completely */
    if (r.node != NULL) {
        sx_destroy(&r.node);
        VP_ASSERT(r.node == NULL, "C20.destroy.clears-handle");
    }
    VP_ASSERT(vp_live == 0, "C20.destroy.frees-all");
    VP_ASSERT(vp_bad_free == 0, "C20.destroy.no-bad-free");
    vp_release_text(s);
}

VP_MAIN_EPILOGUE()
