/* C20, list layer: sx_parse() on arbitrary short texts over a small
 * structural alphabet, compared with a reference recogniser.
 *
 * Input: an object of EXACTLY LEN octets (LEN enumerated by the spec), every
 * octet any character of the alphabet ALPHA_ID (enumerated by the spec):
 *   0: ( ) space 1 a            structure only
 *   1: ( ) space tab 1 a F # x {   the 10-character alphabet of the property's
 *                                quantifier: hex in both cases, a broken token
 * All strings of that length over that alphabet are covered by one query.
 *
 * Oracle: the printed form of a tree is its token sequence, so the reference
 * recogniser is the reference lexer (c20_common.h) run in a loop with a depth
 * counter: the text begins with a complete expression iff the depth returns
 * to zero before a bad token, a stray ')' or the end of the text; the
 * expression ends just past that token. The returned tree is walked
 * (iteratively, bounded by the token count) and must print to exactly that
 * token sequence: same nesting, same atoms in the same order, every list a
 * proper list ending in an empty-list node.
 *
 * Modelling: allocator = static pools + ledger (c20_common.h); recursion of
 * sx_parse_list / sx_parse_ bounded per function by the spec (recursion
 * unwinding assertions prove the bound sufficient for LEN); every call of
 * sx_destroy goes to its contract (c20_common.h), which c20_destroy.c proves
 * for the real body.
 *
 * Reach (measured, cbmc 6.11, cadical): LEN 1: 0.4 M variables, 6 s; LEN 2:
 * 2.0 M variables, 60 s; LEN 3: 498 k SSA steps, 6.8 M variables, out of
 * memory at 12 GB. The two recursive call sites of sx_parse_list are
 * unrolled to the full depth on every path because the text position is
 * symbolic, so the call tree grows exponentially with LEN.
 */
#define C20_DESTROY_BY_CONTRACT /* sx_destroy: see c20_common.h and c20_destroy.c */
#include "c20_common.h"

#ifndef ALPHA_ID
#define ALPHA_ID 0
#endif

#if ALPHA_ID == 0
static const char c20_alpha[] = { '(', ')', ' ', '1', 'a' };
#elif ALPHA_ID == 1
static const char c20_alpha[] = { '(', ')', ' ', '\t', '1', 'a', 'F', '#', 'x', '{' };
#else
#error "unknown ALPHA_ID"
#endif
#define NALPHA (sizeof c20_alpha)

#define MAXTOK (LEN ? LEN : 1)
#define MAXDEPTH (LEN / 2 + 2)

struct vp_in {
    char s[LEN ? LEN : 1];
    uint8_t junk; /* content of fresh malloc() memory */
};
VP_DECLARE_INPUT();

static bool
c20_in_alpha(char c)
{
    bool ok = false;
    for (size_t k = 0; k < NALPHA; ++k)
        if (c == c20_alpha[k])
            ok = true;
    return ok;
}

/* ---- reference recogniser ---- */
struct ref_expr {
    bool ok;     /* text begins (after whitespace) with a complete expression */
    bool unspec; /* property text does not decide */
    size_t end;  /* just past the expression */
    unsigned ntok;
    unsigned maxdepth;
    struct ref_tok tok[MAXTOK];
    enum ref_kind why; /* token kind that made it incomplete */
};

static struct ref_expr
ref_expression(const char *s, size_t n, size_t i)
{
    struct ref_expr e;
    e.ok = false;
    e.unspec = false;
    e.end = i;
    e.ntok = 0;
    e.maxdepth = 0;
    e.why = R_BLANK;
    unsigned depth = 0;
    size_t pos = i;
    for (unsigned k = 0; k < MAXTOK; ++k) { /* every token has >= 1 octet */
        const struct ref_tok t = ref_token(s, n, pos);
        if (t.kind == R_UNSPEC) {
            e.unspec = true;
            return e;
        }
        if (t.kind == R_BLANK || t.kind == R_BAD || (t.kind == R_CLOSE && depth == 0)) {
            e.why = t.kind;
            return e;
        }
        e.tok[e.ntok++] = t;
        pos = t.end;
        if (t.kind == R_OPEN) {
            depth++;
            if (depth > e.maxdepth)
                e.maxdepth = depth;
        } else if (t.kind == R_CLOSE) {
            depth--;
        }
        if (depth == 0) {
            e.ok = true;
            e.end = pos;
            return e;
        }
    }
    /* MAXTOK tokens and still open: the text is used up */
    e.why = R_BLANK;
    return e;
}

/* ---- does the tree print to the reference token sequence? ---- */
static bool
c20_atom_is(const struct sx_node *x, const char *s, const struct ref_tok *t)
{
    if (t->kind == R_INT)
        return x->type == SXT_INTEGER && x->data.u64 == t->value;
    if (t->kind == R_SYM) {
        if (x->type != SXT_SYMBOL)
            return false;
        const char *sym = vp_sym_view(x->data.symbol);
        const size_t len = t->end - t->start;
        if (sym == NULL || vp_sym_block_size(x->data.symbol) < len + 1)
            return false;
        bool same = true;
        for (size_t k = 0; k < LEN; ++k)
            if (k < len && sym[k] != s[t->start + k])
                same = false;
        return same && sym[len] == '\0';
    }
    return false;
}

static bool
c20_tree_prints_as(const struct sx_node *root, const char *s, const struct ref_expr *e)
{
    const struct sx_node *stack[MAXDEPTH];
    unsigned sp = 0;
    unsigned k = 0;       /* next expected token */
    bool rest = false;    /* x is the remainder of an open list */
    const struct sx_node *x = vp_node_view(root);

    for (unsigned step = 0; step < MAXTOK; ++step) { /* one token per step */
        if (x == NULL || k >= e->ntok)
            return false;
        const struct ref_tok *t = &e->tok[k];
        bool done_expr = false;
        if (rest && x->type == SXT_PAIR) {
            const struct sx_pair *p = vp_pair_view(x->data.pair);
            if (p == NULL || sp >= MAXDEPTH)
                return false;
            stack[sp++] = p->cdr;
            x = vp_node_view(p->car);
            rest = false;
            if (x == NULL)
                return false;
        } else if (rest) {
            if (x->type != SXT_EMPTY_LIST || t->kind != R_CLOSE)
                return false; /* improper list, or list too short/long */
            k++;
            done_expr = true;
        }
        if (!done_expr) {
            if (x->type == SXT_PAIR || x->type == SXT_EMPTY_LIST) {
                if (t->kind != R_OPEN)
                    return false;
                k++;
                rest = true;
                continue;
            }
            if (!c20_atom_is(x, s, t))
                return false;
            k++;
        }
        /* an expression is complete */
        if (sp == 0)
            return k == e->ntok;
        x = vp_node_view(stack[--sp]);
        rest = true;
    }
    return false;
}

void
harness(void)
{
    VP_INPUT(in);
    for (size_t k = 0; k < LEN; ++k)
        VP_ASSUME(c20_in_alpha(in.s[k]));
    char *s = vp_exact_text(in.s);
    vp_junk = in.junk;

    const size_t n = LEN;
    const struct ref_expr e = ref_expression(s, n, 0);

    struct sx_parse_result r = sx_parse(s, n, 0);

    VP_ASSERT(!c20_is_error(r.status) || r.node == NULL, "C20.list.error-no-node");
    VP_ASSERT(vp_bad_free == 0, "C20.list.no-bad-free");
    VP_ASSERT(vp_canaries_ok(), "C20.list.no-write-past-allocation");

    if (!e.unspec) {
        if (e.ok) {
            VP_ASSERT(r.status == SXS_SUCCESS, "C20.list.complete-expression-succeeds");
            VP_ASSERT(r.node != NULL, "C20.list.tree-returned");
            VP_ASSERT(r.position == e.end, "C20.list.position-just-past");
            if (r.status == SXS_SUCCESS && r.node != NULL)
                VP_ASSERT(c20_tree_prints_as(r.node, s, &e), "C20.list.tree-identical");
#if LEN >= 2
            VP_WITNESS(e.maxdepth >= 1 && e.end == LEN, "C20.list.whole-text-list.reach");
#endif
#if LEN >= 3
            VP_WITNESS(e.maxdepth >= 1 && e.ntok == 3, "C20.list.one-element.reach");
#endif
#if LEN >= 4
            VP_WITNESS(e.maxdepth >= 2, "C20.list.nested.reach");
            VP_WITNESS(e.maxdepth == 1 && e.ntok == 3 && e.end == LEN, "C20.list.inner-whitespace.reach");
#endif
#if LEN >= 5
            VP_WITNESS(e.maxdepth == 2 && e.tok[1].kind == R_OPEN && e.tok[2].kind == R_CLOSE
                           && e.tok[3].kind != R_CLOSE,
                       "C20.list.nested-empty-then-more.reach");
#endif
#if LEN >= 1
            VP_WITNESS(e.maxdepth == 0, "C20.list.atom.reach");
#endif
        } else {
            VP_ASSERT(c20_is_error(r.status), "C20.list.incomplete-is-error");
            VP_ASSERT(r.node == NULL, "C20.list.incomplete-no-tree");
            VP_ASSERT(vp_live == 0, "C20.list.incomplete-no-leak");
#if LEN >= 2
            VP_WITNESS(e.ntok >= 1 && e.why == R_BLANK && ref_isws(s[LEN - 1]),
                       "C20.list.open-then-blank.reach");
#endif
#if LEN >= 3
            VP_WITNESS(e.ntok == 2 && e.why == R_BLANK && e.tok[1].kind != R_OPEN,
                       "C20.list.unterminated-with-element.reach");
            VP_WITNESS(e.ntok >= 1 && e.why == R_BAD, "C20.list.bad-token-inside.reach");
#endif
            VP_WITNESS(e.ntok == 0, "C20.list.nothing.reach");
        }
    }

    /* the returned tree owns every allocation that is still live, each once */
    c20_destroy_contract(&r.node);
    VP_ASSERT(vp_live == 0, "C20.list.tree-owns-all-live-allocations");
    VP_ASSERT(vp_bad_free == 0, "C20.list.tree-blocks-distinct-and-live");
    vp_release_text(s);
}

VP_MAIN_EPILOGUE()
