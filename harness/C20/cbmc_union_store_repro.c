/* NOT a harness (no spec names this file). Reproducer for a modelling problem
 * of cbmc 6.11.0 that decided how the C20 allocator pools are built.
 *
 *   cbmc --no-malloc-may-fail cbmc_union_store_repro.c   -> "car stored": FAILURE (wrong)
 *   cbmc cbmc_union_store_repro.c -DARRAY                -> SUCCESS
 *
 * struct node has a union with an integer, a char* and a struct pair*. When
 * the node is one of SEVERAL objects (separate statics, or malloc), a store
 * through the pair pointer read back from the union
 *        c->data.p->car = a;
 * is lost: every generated pointer check passes, the trace shows the
 * assignment going to "invalid_object.car", and a later read does not see
 * the value. With the nodes in ONE array and the element chosen by a chain
 * of comparisons on a run-time counter (-DARRAY) the store arrives.
 */
#include <stddef.h>
#include <stdlib.h>
struct pair;
struct node { int type; union { unsigned long u; char *s; struct pair *p; } data; };
struct pair { struct node *car, *cdr; };
unsigned nn, np;
#ifdef ARRAY
static struct node N[3]; static struct pair P[2];
static struct node *alloc_node(void) { struct node *p = nn == 2 ? &N[2] : nn == 1 ? &N[1] : &N[0]; nn++; p->type = 7; return p; }
static struct pair *alloc_pair(void) { struct pair *p = np == 1 ? &P[1] : &P[0]; np++; p->car = 0; p->cdr = 0; return p; }
#else
static struct node *alloc_node(void) { struct node *p = malloc(sizeof *p); nn++; p->type = 7; return p; }
static struct pair *alloc_pair(void) { struct pair *p = malloc(sizeof *p); np++; p->car = 0; p->cdr = 0; return p; }
#endif
static struct node *mk(void) { struct node *rv = alloc_node(); rv->data.p = alloc_pair(); rv->type = 2; return rv; }
static struct node *cons(struct node *a, struct node *b) { struct node *c = mk(); c->data.p->car = a; c->data.p->cdr = b; return c; }
int nondet_int(void);
int main(void)
{
    struct node *a = 0;
    if (nondet_int()) { a = alloc_node(); a->type = 1; a->data.u = 5; }
    struct node *c = cons(a, 0);
    __CPROVER_assert(c->data.p->car == a, "car stored");
    return 0;
}
