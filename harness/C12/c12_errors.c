/* C12 H5: source and sink errors are returned unchanged, at every position.
 * Units: src/rfc1055.c, src/endpoints/core.c (linked unchanged); scripted
 * octet source; scripted sink (octet driver with -DOCTET_SINK: escape pairs
 * then travel through sink_put_chunk -> sink_adapt; else all-or-nothing chunk
 * driver).
 *
 * One of four experiments, chosen by the solver, on a payload of 0..NP
 * arbitrary octets:
 *   0  encode, the payload source fails with `err` after `idx` octets
 *   1  encode, the sink fails with `err` once `idx` octets were accepted
 *   2  decode of the well-formed frame, the source fails after `idx` octets
 *   3  decode of the well-formed frame, the sink fails after `idx` octets
 * `err` is any negative int except the endpoint contract's retry signals
 * (-EINTR, -EAGAIN) and, for the encoder's payload source, -ENODATA (which is
 * the contract's "end of data").
 */
#include "c12_common.h"
#include <string.h>

#ifndef NP
#define NP 3
#endif
#define WC (2 * NP + 2)

#ifdef OCTET_SINK
#define SINKINIT(d) OCTET_SINK_INIT(ssink_put, d)
#else
#define SINKINIT(d) CHUNK_SINK_INIT(ssink_put_chunk, d)
#endif

struct vp_in {
    uint8_t sof;
    uint8_t n;
    uint8_t p[NP];
    uint8_t which;
    uint8_t idx;
    int err;
    uint8_t once; /* the injected sink fault is transient (one-shot) instead of permanent */
};
VP_DECLARE_INPUT();

void harness(void)
{
    VP_INPUT(in);
#ifdef SOF
    const bool sof = SOF;
#else
    const bool sof = in.sof != 0;
    VP_ASSUME(in.sof <= 1);
#endif
    VP_ASSUME(in.n <= NP);
    VP_ASSUME(in.which <= 3);
    VP_ASSUME(in.once <= 1);
    VP_ASSUME(c12_is_error(in.err));

    uint8_t ref[WC];
    C12_FILL(ref, 0);
    const c12_len rl = ref_frame(ref, 0, in.p, in.n, NP, sof);

    uint8_t pay[NP];
    C12_COPY(pay, in.p);
    uint8_t out[WC];
    RFC1055Context ctx;
    rfc1055_context_init(&ctx, sof ? RFC1055_WITH_SOF : RFC1055_DEFAULT);

    if (in.which <= 1) {
        struct ssrc ps = { .data = pay, .n = in.n, .pos = 0, .err = -ENODATA };
        struct ssink es = { .data = out, .phys = WC, .cap = WC, .n = 0,
                            .err = -ENOMEM };
        if (in.which == 0) {
            VP_ASSUME(in.idx <= in.n);
            VP_ASSUME(in.err != -ENODATA);
            ps.n = in.idx;
            ps.err = in.err;
        } else {
            VP_ASSUME(in.idx < rl);
            es.cap = in.idx;
            es.err = in.err;
            es.once = in.once != 0;
        }
        Source psrc = OCTET_SOURCE_INIT(ssrc_get, &ps);
        Sink esink = SINKINIT(&es);
        const int rc = rfc1055_encode(&ctx, &psrc, &esink);
        if (in.which == 0)
            VP_ASSERT(rc == in.err, "C12.err.encode-source-error-unchanged");
        else
            VP_ASSERT(rc == in.err, "C12.err.encode-sink-error-unchanged");
        VP_ASSERT(!es.overflow, "C12.err.encode-sink-not-overrun");
        VP_WITNESS(in.which == 0 && in.idx == NP - 1 && in.err == -EIO
                       && pay[0] == C_ESC,
                   "C12.err.encode-source.reach");
        /* the sink fails on the second octet of an escape pair (octet sink)
         * or on the pair (chunk sink) */
        VP_WITNESS(in.which == 1 && in.n == NP && in.idx == rl - 2
                       && pay[NP - 1] == C_END && in.err == -ENOSPC,
                   "C12.err.encode-sink.reach");
    } else {
        struct ssrc ds = { .data = ref, .n = rl, .pos = 0, .err = -ENODATA };
        struct ssink os = { .data = out, .phys = WC, .cap = WC, .n = 0,
                            .err = -ENOMEM };
        if (in.which == 2) {
            VP_ASSUME(in.idx < rl);
            ds.n = in.idx;
            ds.err = in.err;
        } else {
            VP_ASSUME(in.idx < in.n);
            os.cap = in.idx;
            os.err = in.err;
            os.once = in.once != 0;
        }
        Source dsrc = OCTET_SOURCE_INIT(ssrc_get, &ds);
        Sink dsink = SINKINIT(&os);
        const int rc = rfc1055_decode(&ctx, &dsrc, &dsink);
        if (in.which == 2)
            VP_ASSERT(rc == in.err, "C12.err.decode-source-error-unchanged");
        else
            VP_ASSERT(rc == in.err, "C12.err.decode-sink-error-unchanged");
        VP_ASSERT(!os.overflow && os.n <= ds.pos,
                  "C12.err.decode-never-emits-more-than-consumed");
        /* the source ends between ESC and its second octet */
        VP_WITNESS(in.which == 2 && in.n == NP && in.idx == rl - 2
                       && pay[NP - 1] == C_ESC && in.err == -ENODATA,
                   "C12.err.decode-source.reach");
        VP_WITNESS(in.which == 3 && in.idx == NP - 1 && in.err == -ENOMEM,
                   "C12.err.decode-sink.reach");
    }
}
VP_MAIN_EPILOGUE()
