/* C12 common pieces: SLIP alphabet (RFC 1055), reference encoder, scripted
 * Source/Sink drivers.  Nothing in here is copied from src/rfc1055.c: the
 * octet values and the stuffing rule are RFC 1055's. */
#ifndef C12_COMMON_H
#define C12_COMMON_H

#include <vp.h>
#include <errno.h>
#include <ufw/endpoints.h>
#include <ufw/rfc1055.h>

#define C_END 0xC0u     /* RFC 1055: END */
#define C_ESC 0xDBu     /* RFC 1055: ESC */
#define C_ESC_END 0xDCu /* RFC 1055: ESC_END */
#define C_ESC_ESC 0xDDu /* RFC 1055: ESC_ESC */

#define ST_S RFC1055_SEARCH_FOR_START
#define ST_E RFC1055_SEARCH_FOR_END
#define ST_N RFC1055_NORMAL

/* Lengths and positions in the harnesses and scripted drivers are 8-bit
 * (every array here is far shorter than 255 octets): comparisons and index
 * arithmetic on them cost the solver 8 instead of 64 bits. */
typedef uint8_t c12_len;

/* The harnesses fill and copy their own arrays with these (constant trip
 * count, unrolled for free) so that the libc byte-loop models keep the small
 * unwinding bound the code under test needs (<= 2 octets per call). */
#define C12_FILL(arr, v)                                                    \
    do {                                                                    \
        for (unsigned i_ = 0; i_ < sizeof(arr); ++i_)                       \
            ((uint8_t *)(arr))[i_] = (v);                                   \
    } while (0)
#define C12_COPY(dst, src)                                                  \
    do {                                                                    \
        for (unsigned i_ = 0; i_ < sizeof(dst); ++i_)                       \
            ((uint8_t *)(dst))[i_] = ((const uint8_t *)(src))[i_];          \
    } while (0)

/* ---- reference encoder: appends the stuffed image of one octet ---------- */
static c12_len ref_stuff(uint8_t *out, c12_len at, uint8_t v)
{
    if (v == C_END) {
        out[at++] = C_ESC;
        out[at++] = C_ESC_END;
    } else if (v == C_ESC) {
        out[at++] = C_ESC;
        out[at++] = C_ESC_ESC;
    } else {
        out[at++] = v;
    }
    return at;
}

/* appends one frame (RFC 1055 image; leading END in start-of-frame mode) */
static c12_len ref_frame(uint8_t *out, c12_len at, const uint8_t *p, c12_len n,
                         c12_len nmax, bool sof)
{
    if (sof)
        out[at++] = C_END;
    for (c12_len i = 0; i < nmax; ++i)
        if (i < n)
            at = ref_stuff(out, at, p[i]);
    out[at++] = C_END;
    return at;
}

/* ---- scripted octet source: n octets, then `err` for ever --------------- */
struct ssrc {
    const uint8_t *data;
    c12_len n;
    c12_len pos;
    int err;
    bool failed;
};

/* first error any scripted driver handed to the code under test */
static int c12_first_err;

static int ssrc_get(void *drv, void *out)
{
    struct ssrc *s = drv;
    if (s->pos >= s->n) {
        s->failed = true;
        if (c12_first_err == 0)
            c12_first_err = s->err;
        return s->err;
    }
    *(unsigned char *)out = s->data[s->pos];
    s->pos++;
    return 1;
}

/* ---- scripted octet sink: accepts `cap` octets, then `err` for ever ------
 * `phys` is the size of the array behind `data`; an octet offered beyond it
 * is counted but not stored (the harness asserts it never happens). */
struct ssink {
    uint8_t *data;
    c12_len phys;
    c12_len cap;
    c12_len n;
    int err;
    bool failed;
    bool overflow;
    bool once; /* transient fault: the sink fails exactly once, then accepts again */
};

static int ssink_put(void *drv, unsigned char c)
{
    struct ssink *s = drv;
    if (s->once && s->failed)
        s->cap = s->phys;
    if (s->n >= s->cap) {
        s->failed = true;
        if (c12_first_err == 0)
            c12_first_err = s->err;
        return s->err;
    }
    if (s->n < s->phys)
        s->data[s->n] = c;
    else
        s->overflow = true;
    s->n++;
    return 1;
}

/* the same sink as a chunk driver: all-or-nothing like the library's buffer
 * sink (a chunk that does not fit is refused as a whole) */
static ssize_t ssink_put_chunk(void *drv, const void *buf, size_t n)
{
    struct ssink *s = drv;
    const unsigned char *b = buf;
    if (s->once && s->failed)
        s->cap = s->phys;
    if (s->n > s->cap || n > (size_t)(s->cap - s->n)) {
        s->failed = true;
        if (c12_first_err == 0)
            c12_first_err = s->err;
        return s->err;
    }
    for (size_t i = 0; i < n; ++i) {
        if (s->n < s->phys)
            s->data[s->n] = b[i];
        else
            s->overflow = true;
        s->n++;
    }
    return (ssize_t)n;
}

/* an error value a driver may return as a genuine, final error: negative,
 * and not one of the two values the endpoint contract (src/endpoints/core.c
 * header comment) defines as "retry" signals. */
static bool c12_is_error(int e)
{
    return e < 0 && e != -EINTR && e != -EAGAIN;
}

#endif
