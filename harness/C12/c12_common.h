/* C12 common pieces: SLIP alphabet (RFC 1055), reference encoder, scripted
 * Source/Sink drivers.  Nothing in here is copied from src/rfc1055.c: the
 * octet values and the stuffing rule are RFC 1055's. */
#ifndef C12_COMMON_H
#define C12_COMMON_H

#include <vp.h>
#include <errno.h>
#include <ufw/endpoints.h>
#include <ufw/rfc1055.h>

#define C_END 0xC0u     /* RFC 1055: END */
#define C_ESC 0xDBu     /* RFC 1055: ESC */
#define C_ESC_END 0xDCu /* RFC 1055: ESC_END */
#define C_ESC_ESC 0xDDu /* RFC 1055: ESC_ESC */

#define ST_S RFC1055_SEARCH_FOR_START
#define ST_E RFC1055_SEARCH_FOR_END
#define ST_N RFC1055_NORMAL

/* ---- reference encoder: appends the stuffed image of one octet ---------- */
static size_t ref_stuff(uint8_t *out, size_t at, uint8_t v)
{
    if (v == C_END) {
        out[at++] = C_ESC;
        out[at++] = C_ESC_END;
    } else if (v == C_ESC) {
        out[at++] = C_ESC;
        out[at++] = C_ESC_ESC;
    } else {
        out[at++] = v;
    }
    return at;
}

/* appends one frame (RFC 1055 image; leading END in start-of-frame mode) */
static size_t ref_frame(uint8_t *out, size_t at, const uint8_t *p, size_t n,
                        size_t nmax, bool sof)
{
    if (sof)
        out[at++] = C_END;
    for (size_t i = 0; i < nmax; ++i)
        if (i < n)
            at = ref_stuff(out, at, p[i]);
    out[at++] = C_END;
    return at;
}

/* ---- scripted octet source: n octets, then `err` for ever --------------- */
struct ssrc {
    const uint8_t *data;
    size_t n;
    size_t pos;
    int err;
    bool failed;
};

/* first error any scripted driver handed to the code under test */
static int c12_first_err;

static int ssrc_get(void *drv, void *out)
{
    struct ssrc *s = drv;
    if (s->pos >= s->n) {
        s->failed = true;
        if (c12_first_err == 0)
            c12_first_err = s->err;
        return s->err;
    }
    *(unsigned char *)out = s->data[s->pos];
    s->pos++;
    return 1;
}

/* ---- scripted octet sink: accepts `cap` octets, then `err` for ever ------
 * `phys` is the size of the array behind `data`; an octet offered beyond it
 * is counted but not stored (the harness asserts it never happens). */
struct ssink {
    uint8_t *data;
    size_t phys;
    size_t cap;
    size_t n;
    int err;
    bool failed;
    bool overflow;
};

static int ssink_put(void *drv, unsigned char c)
{
    struct ssink *s = drv;
    if (s->n >= s->cap) {
        s->failed = true;
        if (c12_first_err == 0)
            c12_first_err = s->err;
        return s->err;
    }
    if (s->n < s->phys)
        s->data[s->n] = c;
    else
        s->overflow = true;
    s->n++;
    return 1;
}

/* an error value a driver may return as a genuine, final error: negative,
 * and not one of the two values the endpoint contract (src/endpoints/core.c
 * header comment) defines as "retry" signals. */
static bool c12_is_error(int e)
{
    return e < 0 && e != -EINTR && e != -EAGAIN;
}

#endif
