/* C12 H1/H2: round trip, encoding bound, delimiter placement, concatenation.
 * Units: src/rfc1055.c, src/endpoints/core.c (+ endpoints/buffer.c and
 * byte-buffer.c with -DREAL_BUF), all linked unchanged.
 *
 * NF frames with payloads of 0..NP arbitrary octets each are encoded one after
 * the other by the real rfc1055_encode() into ONE sink whose capacity is
 * exactly the sum of the worst-case sizes 2n+1 (2n+2 with start-of-frame);
 * the resulting octet string is then decoded NF times by rfc1055_decode().
 *
 * -DREAL_BUF: sources and sinks are the library's ByteBuffer endpoints
 *             (source_from_buffer / sink_to_buffer).
 * otherwise:  scripted drivers of c12_common.h: octet source; the sink is an
 *             octet driver (-DOCTET_SINK: escape pairs then travel through
 *             sink_put_chunk -> sink_adapt of endpoints/core.c) or an
 *             all-or-nothing chunk driver (default; cheaper).
 * -DSOF=0/1:  fix the mode at compile time (otherwise the solver picks it).
 */
#include "c12_common.h"
#include <string.h>

#ifdef OCTET_SINK
#define SINKINIT(d) OCTET_SINK_INIT(ssink_put, d)
#else
#define SINKINIT(d) CHUNK_SINK_INIT(ssink_put_chunk, d)
#endif

#ifndef NP
#define NP 3
#endif
#ifndef NF
#define NF 1
#endif
#define WC (2 * NP + 2)  /* worst case of one frame */
#define ENC_MAX (NF * WC)
#define GUARD 2

struct vp_in {
    uint8_t sof;
    uint8_t n[NF];
    uint8_t p[NF][NP];
};
VP_DECLARE_INPUT();

void harness(void)
{
    VP_INPUT(in);
#ifdef SOF
    const bool sof = SOF;
#else
    const bool sof = in.sof != 0;
    VP_ASSUME(in.sof <= 1);
#endif
    c12_len bound = 0;
    for (unsigned f = 0; f < NF; ++f) {
        VP_ASSUME(in.n[f] <= NP);
        bound += (c12_len)RFC1055_WORST_CASE((size_t)in.n[f], sof);
        /* the header's macro is part of the claim: 2n+1 / 2n+2 */
        VP_ASSERT(RFC1055_WORST_CASE((size_t)in.n[f], sof)
                      == 2u * in.n[f] + (sof ? 2u : 1u),
                  "C12.worst-case-macro");
    }

    /* reference image of the whole stream */
    uint8_t ref[ENC_MAX];
    c12_len ref_end[NF];
    c12_len rl = 0;
    for (unsigned f = 0; f < NF; ++f) {
        rl = ref_frame(ref, rl, in.p[f], in.n[f], NP, sof);
        ref_end[f] = rl;
    }

    uint8_t pay[NF][NP];
    C12_COPY(pay, in.p);
    uint8_t encmem[ENC_MAX + 2 * GUARD];
    C12_FILL(encmem, 0xA5);
    uint8_t *enc = encmem + GUARD;

    RFC1055Context ectx;
    rfc1055_context_init(&ectx, sof ? RFC1055_WITH_SOF : RFC1055_DEFAULT);

    /* ------------------------------------------------------------ encode */
#ifdef REAL_BUF
    ByteBuffer eb = { .data = enc, .size = bound, .used = 0, .offset = 0 };
    Sink esink;
    sink_to_buffer(&esink, &eb);
#else
    struct ssink es = { .data = enc, .phys = ENC_MAX, .cap = bound, .n = 0,
                        .err = -ENOMEM };
    Sink esink = SINKINIT(&es);
#endif
    for (unsigned f = 0; f < NF; ++f) {
#ifdef REAL_BUF
        ByteBuffer pb = { .data = pay[f], .size = NP, .used = in.n[f],
                          .offset = 0 };
        Source psrc;
        source_from_buffer(&psrc, &pb);
#else
        struct ssrc ps = { .data = pay[f], .n = in.n[f], .pos = 0,
                           .err = -ENODATA };
        Source psrc = OCTET_SOURCE_INIT(ssrc_get, &ps);
#endif
        int erc = rfc1055_encode(&ectx, &psrc, &esink);
        /* a sink of exactly the worst-case size must suffice */
        VP_ASSERT(erc >= 0, "C12.enc.fits-worst-case-bound");
#ifdef REAL_BUF
        VP_ASSERT(pb.offset == pb.used, "C12.enc.consumes-whole-payload");
        const size_t el = eb.used;
#else
        VP_ASSERT(ps.pos == in.n[f], "C12.enc.consumes-whole-payload");
        const size_t el = es.n;
#endif
        VP_ASSERT(el == ref_end[f], "C12.enc.length-is-rfc1055");
    }
#ifdef REAL_BUF
    const size_t elen = eb.used;
#else
    const size_t elen = es.n;
    VP_ASSERT(!es.overflow, "C12.enc.sink-not-overrun");
#endif
    VP_ASSERT(elen <= bound, "C12.enc.at-most-2n+1(+1)");
    VP_ASSERT(elen == rl, "C12.enc.total-length");
    for (size_t i = 0; i < ENC_MAX; ++i) {
        if (i < elen) {
            VP_ASSERT(enc[i] == ref[i], "C12.enc.image-is-rfc1055");
            /* END only as delimiter: last octet of a frame or, with
             * start-of-frame, also its first */
            bool delim_pos = false;
            for (unsigned f = 0; f < NF; ++f) {
                size_t start = f ? ref_end[f - 1] : 0;
                if (i + 1 == ref_end[f] || (sof && i == start))
                    delim_pos = true;
            }
            VP_ASSERT((enc[i] == C_END) == delim_pos,
                      "C12.enc.END-only-as-delimiter");
        }
    }
    for (size_t i = 0; i < GUARD; ++i) {
        VP_ASSERT(encmem[i] == 0xA5, "C12.enc.guard-before");
        VP_ASSERT(encmem[GUARD + ENC_MAX + i] == 0xA5, "C12.enc.guard-after");
    }

    /* ------------------------------------------------------------ decode */
    RFC1055Context dctx;
    rfc1055_context_init(&dctx, sof ? RFC1055_WITH_SOF : RFC1055_DEFAULT);
#ifdef REAL_BUF
    ByteBuffer sb = { .data = enc, .size = ENC_MAX, .used = elen, .offset = 0 };
    Source dsrc;
    source_from_buffer(&dsrc, &sb);
#else
    struct ssrc ds = { .data = enc, .n = elen, .pos = 0, .err = -ENODATA };
    Source dsrc = OCTET_SOURCE_INIT(ssrc_get, &ds);
#endif
    for (unsigned f = 0; f < NF; ++f) {
        uint8_t outmem[NP + 2 * GUARD];
        C12_FILL(outmem, 0x5A);
        uint8_t *out = outmem + GUARD;
        /* the sink has room for exactly the payload: one octet too many is
         * a sink error, i.e. a return value other than 1 */
#ifdef REAL_BUF
        ByteBuffer ob = { .data = out, .size = in.n[f], .used = 0, .offset = 0 };
        Sink dsink;
        sink_to_buffer(&dsink, &ob);
#else
        struct ssink os = { .data = out, .phys = NP, .cap = in.n[f], .n = 0,
                            .err = -ENOMEM };
        Sink dsink = SINKINIT(&os);
#endif
        int drc = rfc1055_decode(&dctx, &dsrc, &dsink);
        VP_ASSERT(drc == 1, "C12.dec.signals-end-of-frame");
#ifdef REAL_BUF
        const size_t got = ob.used;
        const size_t consumed = sb.offset;
#else
        const size_t got = os.n;
        const size_t consumed = ds.pos;
#endif
        VP_ASSERT(got == in.n[f], "C12.dec.payload-length");
        for (size_t i = 0; i < NP; ++i)
            if (i < in.n[f])
                VP_ASSERT(out[i] == in.p[f][i], "C12.dec.payload-octets");
        VP_ASSERT(consumed == ref_end[f], "C12.dec.consumes-exactly-one-frame");
        for (size_t i = 0; i < GUARD; ++i) {
            VP_ASSERT(outmem[i] == 0x5A, "C12.dec.guard-before");
            VP_ASSERT(outmem[GUARD + NP + i] == 0x5A, "C12.dec.guard-after");
        }
        if (f == NF - 1) {
            /* interesting path: every frame has full length, the last one
             * begins and ends with the two octets that need stuffing */
            const bool stuffed = drc == 1 && got == NP && in.n[0] == NP
                && in.p[f][0] == C_END && in.p[f][NP - 1] == C_ESC;
#if !defined(SOF) || SOF
            VP_WITNESS(stuffed && sof, "C12.codec.sof-stuffed.reach");
#endif
#if !defined(SOF) || !SOF
            VP_WITNESS(stuffed && !sof, "C12.codec.classic-stuffed.reach");
#endif
#if NF > 1
            VP_WITNESS(drc == 1 && in.n[0] == 0 && got >= 1,
                       "C12.codec.empty-then-nonempty.reach");
#endif
        }
    }
}
VP_MAIN_EPILOGUE()
