/* C12 H4: resynchronisation after a corrupted prefix.
 * Units: src/rfc1055.c, src/endpoints/core.c (linked unchanged); scripted
 * octet source / octet sink.
 *
 * The decoder starts in an ARBITRARY reachable state (this stands for an
 * arbitrarily long earlier history: the decoder keeps no other memory) and
 * reads
 *    classic:         g  END  frame_0 frame_1 ...      frame = stuffed(p) END
 *    start-of-frame:  g       frame_0 frame_1 ...      frame = END stuffed(p) END
 * where g is 0..NG arbitrary octets (all 256 values, including END and ESC)
 * and the NF frames are well formed with payloads of 0..NPR arbitrary octets.
 * rfc1055_decode() is called, with an emptied sink each time, until the
 * stream is exhausted.  A "delivery" is a call that returns 1; it delivers the
 * sink content.
 *
 * classic:        the deliveries that complete after the delimiter END are
 *                 exactly frame_0, frame_1, ... in order, each intact.
 * start-of-frame: let frame_k be the first frame with a non-empty payload;
 *                 the deliveries that complete after the end of frame_k are
 *                 exactly frame_k+1, ... in order, each intact (frame_k itself
 *                 may be lost, may be delivered; nothing is required for it).
 */
#include "c12_common.h"
#include <string.h>

#ifndef NG
#define NG 3
#endif
#ifndef NF
#define NF 2
#endif
#ifndef NPR
#define NPR 2
#endif
#ifndef SOF
#error "SOF=0/1"
#endif
#define FR (2 * NPR + 2)
#define L (NG + 1 + NF * FR)
/* Call budget.  A call that ends inside the noise consumes at least one
 * octet of it; the classic delimiter and every well-formed frame cost a
 * synchronised decoder one call; a start-of-frame decoder that is off by one
 * delimiter needs two for the frame it loses (delivery at its first END, the
 * error for the missing start).  An input for which the budget does not
 * suffice is not judged (so never a false alarm); -DC12_BUDGET_PROBE turns
 * "the budget suffices" into an assertion (proved for the real decoder at all
 * quick and thorough sizes; classic NG+NF+1 is tight). */
#ifdef MAXCALLS
#elif SOF
#define MAXCALLS (NG + 2 * NF + 1)
#else
#define MAXCALLS (NG + NF + 1)
#endif

/* lean scripted endpoints for this harness (file-scope state instead of
 * c12_common.h's driver structs keeps the number of symbols that every return
 * of rfc1055_decode has to merge small) */
static uint8_t r_w[L];
static c12_len r_wl, r_pos;
static uint8_t r_out[NPR]; /* only the first NPR emitted octets are kept */
static c12_len r_cnt;

static int r_get(void *drv, void *out)
{
    (void)drv;
    if (r_pos >= r_wl)
        return -ENODATA;
    *(unsigned char *)out = r_w[r_pos];
    r_pos++;
    return 1;
}

static int r_put(void *drv, unsigned char c)
{
    (void)drv;
    if (r_cnt < NPR)
        r_out[r_cnt] = c;
    r_cnt++;
    return 1;
}

struct vp_in {
    uint8_t state;
    uint8_t ng;
    uint8_t g[NG];
    uint8_t n[NF];
    uint8_t p[NF][NPR];
};
VP_DECLARE_INPUT();

void harness(void)
{
    VP_INPUT(in);
    const bool sof = SOF;
    VP_ASSUME(in.state == ST_S || in.state == ST_E || in.state == ST_N);
    VP_ASSUME(sof || in.state != ST_S);
    VP_ASSUME(in.ng <= NG);
    for (unsigned f = 0; f < NF; ++f)
        VP_ASSUME(in.n[f] <= NPR);

    /* ---- the stream ---- */
    uint8_t w[L];
    C12_FILL(w, 0);
    c12_len wl = 0;
    for (unsigned i = 0; i < NG; ++i)
        if (i < in.ng)
            w[wl++] = in.g[i];
    if (!sof)
        w[wl++] = C_END; /* "the next delimiter" */
    c12_len b0 = wl;     /* deliveries completing after b0 are checked */
    c12_len end[NF];
    unsigned first = 0;  /* first frame that must be delivered */
    bool seen_nonempty = false;
    for (unsigned f = 0; f < NF; ++f) {
        wl = ref_frame(w, wl, in.p[f], in.n[f], NPR, sof);
        end[f] = wl;
        if (sof && !seen_nonempty) {
            first = f + 1;
            b0 = wl;
            if (in.n[f] > 0)
                seen_nonempty = true;
        }
    }

    /* ---- decode until the stream is exhausted ---- */
    C12_COPY(r_w, w);
    r_wl = wl;
    r_pos = 0;
    Source source = OCTET_SOURCE_INIT(r_get, NULL);
    Sink sink = OCTET_SINK_INIT(r_put, NULL);
    RFC1055Context ctx;
    ctx.state = in.state;
    ctx.flags = sof ? RFC1055_WITH_SOF : RFC1055_DEFAULT;

    unsigned next = first;
    unsigned illseq = 0;
    unsigned calls = 0;
    for (; calls < MAXCALLS; ++calls) {
        if (r_pos >= wl)
            break;
        const c12_len before = r_pos;
        r_cnt = 0;
        const int rc = rfc1055_decode(&ctx, &source, &sink);
        VP_ASSERT(r_cnt <= r_pos - before,
                  "C12.resync.never-emits-more-than-consumed");
        if (rc == -EILSEQ)
            illseq++;
        if (rc == 1 && r_pos > b0) {
            VP_ASSERT(next < NF, "C12.resync.no-extra-delivery");
            if (next < NF) {
                VP_ASSERT(r_pos == end[next],
                          "C12.resync.delivery-ends-at-frame-end");
                VP_ASSERT(r_cnt == in.n[next], "C12.resync.frame-length-intact");
                for (size_t i = 0; i < NPR; ++i)
                    if (i < in.n[next])
                        VP_ASSERT(r_out[i] == in.p[next][i],
                                  "C12.resync.frame-octets-intact");
            }
            next++;
        }
    }
    const bool done = r_pos >= wl;
#ifdef C12_BUDGET_PROBE
    /* maintenance probe (not part of the check): on the real decoder the
     * budget always suffices */
    VP_ASSERT(done, "C12.resync.probe-budget-suffices");
#endif
    if (done)
        VP_ASSERT(next == NF, "C12.resync.every-following-frame-delivered");

    /* interesting paths: noise with an invalid escape and a delimiter inside,
     * decoder initially discarding; all required frames non-empty */
    VP_WITNESS(done && next == NF && first < NF && in.n[NF - 1] == NPR && illseq >= 1
                   && in.ng == NG && in.g[0] == C_END && in.g[1] == C_ESC
                   && in.state == ST_E,
               "C12.resync.noisy.reach");
#if SOF
    /* the first non-empty frame is lost, the one after it arrives */
    VP_WITNESS(done && next == NF && first == 1 && in.n[0] > 0 && in.n[1] > 0
                   && in.state == ST_N && in.ng == 0 && illseq == 1,
               "C12.resync.sof-one-frame-lost.reach");
#if NF >= 3
    /* empty frames before it do not count: frame 0 empty, frame 1 lost,
     * frame 2 arrives */
    VP_WITNESS(done && next == NF && first == 2 && in.n[0] == 0 && in.n[2] > 0
                   && in.state == ST_N && in.ng == 0 && illseq == 1,
               "C12.resync.sof-leading-empty.reach");
#endif
#else
    /* prefix ends in a lone ESC: ESC END is an invalid escape AND the
     * delimiter */
    VP_WITNESS(done && next == NF && in.ng >= 1 && in.g[in.ng - 1] == C_ESC
                   && in.state == ST_N && in.n[0] == NPR && in.p[0][0] == C_END,
               "C12.resync.classic-esc-end.reach");
#endif
}
VP_MAIN_EPILOGUE()
