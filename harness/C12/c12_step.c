/* C12 H3: one call of rfc1055_decode() from an ARBITRARY reachable decoder
 * state, on an arbitrary octet string of length 0..K followed by a source
 * error, into a sink that fails after an arbitrary number of octets.
 * Units: src/rfc1055.c, src/endpoints/core.c (linked unchanged); scripted
 * octet source / octet sink.
 *
 * The call is compared with a reference SLIP automaton written from RFC 1055,
 * the property text and the public state names of include/ufw/rfc1055.h:
 *
 *   SEARCH_FOR_START  (start-of-frame mode only) END -> in frame
 *   SEARCH_FOR_END    discard up to and including END, then classic: in frame,
 *                     start-of-frame: SEARCH_FOR_START (a decoder that went
 *                     "in frame" here would, once off by one delimiter, lose
 *                     every following frame: delivery at the start END, error
 *                     at the payload, skip to the end END, and so on)
 *   NORMAL            in frame: ordinary octet -> emitted; ESC ESC_END -> END;
 *                     ESC ESC_ESC -> ESC; END -> end of frame, return 1,
 *                     classic: NORMAL again, start-of-frame: SEARCH_FOR_START;
 *                     ESC + anything else -> -EILSEQ
 *
 * Where the property is silent the check accepts everything: the state after
 * an error return (except: classic mode, invalid escape whose second octet is
 * END -- that END is "the next delimiter", so the decoder must be in frame
 * afterwards; start-of-frame mode, stop at a missing start delimiter), the
 * return value for a non-delimiter met while searching for the start, the sink
 * content on error returns.
 *
 * Because the decoder keeps no memory besides ctx->state (checked here: an
 * arbitrary pre-state), and every loop iteration consumes one or two octets,
 * the K-octet strings from every state exercise every transition followed by
 * every transition; streams of any length are sequences of these.
 */
#include "c12_common.h"
#include <string.h>

#ifndef K
#define K 4
#endif

enum { O_NONE, O_EOF, O_BAD_ESC, O_S_GARBAGE, O_SRC_ERR, O_SINK_ERR };

struct vp_in {
    uint8_t sof;
    uint8_t state;
    uint8_t k;
    uint8_t oct[K];
    int src_err;
    uint8_t cap;
    int sink_err;
};
VP_DECLARE_INPUT();

struct refout {
    int oc;        /* how the call ends */
    unsigned st;   /* state at that point (meaningful for O_EOF) */
    c12_len c;     /* octets consumed */
    c12_len m;     /* octets emitted */
    uint8_t exp[K];
    uint8_t bad2;  /* second octet of the invalid escape */
    bool midesc;   /* source ended between ESC and its second octet */
    bool skipped;  /* the call passed through SEARCH_FOR_END + END */
};

static void ref_call(struct refout *r, const struct vp_in *in, bool sof)
{
    const c12_len k = in->k, cap = in->cap;
    unsigned st = in->state;
    c12_len c = 0, m = 0;
    r->oc = O_NONE;
    r->bad2 = 0;
    r->midesc = false;
    r->skipped = false;
    for (unsigned it = 0; it <= K; ++it) {
        if (r->oc != O_NONE)
            break;
        if (c == k) {
            r->oc = O_SRC_ERR;
            break;
        }
        const uint8_t o = in->oct[c];
        if (st == ST_S) {
            c++;
            if (o == C_END)
                st = ST_N;
            else
                r->oc = O_S_GARBAGE;
        } else if (st == ST_E) {
            c++;
            if (o == C_END) {
                st = sof ? ST_S : ST_N;
                r->skipped = true;
            }
        } else {
            uint8_t v = o;
            if (o == C_END) {
                c++;
                r->oc = O_EOF;
                st = sof ? ST_S : ST_N;
                break;
            }
            if (o == C_ESC) {
                if (c + 1 == k) {
                    c++;
                    r->oc = O_SRC_ERR;
                    r->midesc = true;
                    break;
                }
                const uint8_t o2 = in->oct[c + 1];
                c += 2;
                if (o2 == C_ESC_END) {
                    v = C_END;
                } else if (o2 == C_ESC_ESC) {
                    v = C_ESC;
                } else {
                    r->oc = O_BAD_ESC;
                    r->bad2 = o2;
                    break;
                }
            } else {
                c++;
            }
            if (m == cap) {
                r->oc = O_SINK_ERR;
                break;
            }
            r->exp[m++] = v;
        }
    }
    r->st = st;
    r->c = c;
    r->m = m;
}

/* what the real call did */
struct obs {
    int rc;
    unsigned state;
    c12_len pos, n;
    uint8_t out[K];
};

/* bit i set = obligation i violated */
enum {
    F_EOF_RC = 1, F_EOF_POS = 2, F_EOF_LEN = 4, F_EOF_OCTETS = 8,
    F_EOF_STATE = 16, F_ESC_RC = 32, F_ESC_END_STATE = 64, F_SRC = 128,
    F_SINK = 256, F_REF = 512, F_S_GARBAGE_STATE = 1024, F_SRC_STATE = 2048
};

static unsigned judge(const struct refout *r, const struct obs *o,
                      const struct vp_in *in, bool sof)
{
    unsigned f = 0;
    switch (r->oc) {
    case O_EOF:
        if (o->rc != 1)
            f |= F_EOF_RC;
        if (o->pos != r->c)
            f |= F_EOF_POS;
        if (o->n != r->m)
            f |= F_EOF_LEN;
        for (c12_len i = 0; i < K; ++i)
            if (i < r->m && i < o->n && o->out[i] != r->exp[i])
                f |= F_EOF_OCTETS;
        if (o->state != (sof ? ST_S : ST_N))
            f |= F_EOF_STATE;
        break;
    case O_BAD_ESC:
        if (o->rc != -EILSEQ)
            f |= F_ESC_RC;
        if (!sof && r->bad2 == C_END && o->state != ST_N)
            f |= F_ESC_END_STATE;
        break;
    case O_S_GARBAGE:
        /* the property does not say how a missing start delimiter is
         * reported; but a decoder that stops here must go on to discard the
         * rest of this frame (if it kept waiting for a start delimiter it
         * would take the frame's END for one and stay off by one delimiter
         * for ever) */
        if (o->pos == r->c && o->state != ST_E)
            f |= F_S_GARBAGE_STATE;
        break;
    case O_SRC_ERR:
        if (o->rc != in->src_err)
            f |= F_SRC;
        /* a source error outside an escape pair (idle link, EAGAIN, ...)
         * destroys nothing: the synchronisation state must be the one that
         * belongs to the octets consumed so far, otherwise well-formed frames
         * that follow are lost although nothing was corrupted (seed C12-G) */
        /* (a source failing with -EILSEQ itself is indistinguishable from an
         * invalid escape for the decoder: not judged) */
        if (!r->midesc && in->src_err != -EILSEQ && o->pos == r->c && o->state != r->st)
            f |= F_SRC_STATE;
        break;
    case O_SINK_ERR:
        if (o->rc != in->sink_err)
            f |= F_SINK;
        break;
    default:
        f |= F_REF;
        break;
    }
    return f;
}

void harness(void)
{
    VP_INPUT(in);
#ifdef SOF
    const bool sof = SOF;
#else
    const bool sof = in.sof != 0;
    VP_ASSUME(in.sof <= 1);
#endif
    VP_ASSUME(in.state == ST_S || in.state == ST_E || in.state == ST_N);
    /* reachable: classic mode never searches for a start delimiter */
    VP_ASSUME(sof || in.state != ST_S);
    VP_ASSUME(in.k <= K);
    VP_ASSUME(in.cap <= K);
    VP_ASSUME(c12_is_error(in.src_err));
    VP_ASSUME(c12_is_error(in.sink_err));

    /* ---- the real call ---- */
    uint8_t octets[K];
    C12_COPY(octets, in.oct);
    struct obs o;
    C12_FILL(o.out, 0);
    struct ssrc src = { .data = octets, .n = in.k, .pos = 0,
                        .err = in.src_err };
    struct ssink snk = { .data = o.out, .phys = K, .cap = in.cap, .n = 0,
                         .err = in.sink_err };
    Source source = OCTET_SOURCE_INIT(ssrc_get, &src);
    Sink sink = OCTET_SINK_INIT(ssink_put, &snk);
    RFC1055Context ctx;
    ctx.state = in.state;
    ctx.flags = sof ? RFC1055_WITH_SOF : RFC1055_DEFAULT;

    o.rc = rfc1055_decode(&ctx, &source, &sink);
    o.state = ctx.state;
    o.pos = src.pos;
    o.n = snk.n;

    /* ---- every outcome ---- */
    VP_ASSERT(!snk.overflow && snk.n <= src.pos,
              "C12.step.never-emits-more-than-consumed");
    VP_ASSERT(ctx.flags == (sof ? RFC1055_WITH_SOF : RFC1055_DEFAULT),
              "C12.step.mode-unchanged");

    /* ---- reference ---- */
    struct refout r;
    ref_call(&r, &in, sof);
    const unsigned f = judge(&r, &o, &in, sof);
    VP_ASSERT(!(f & F_REF), "C12.step.reference-terminates");
    VP_ASSERT(!(f & F_EOF_RC), "C12.step.END-in-frame-signals-end-of-frame");
    VP_ASSERT(!(f & F_EOF_POS), "C12.step.frame-consumed-up-to-its-END");
    VP_ASSERT(!(f & F_EOF_LEN), "C12.step.frame-length");
    VP_ASSERT(!(f & F_EOF_OCTETS), "C12.step.frame-octets");
    VP_ASSERT(!(f & F_EOF_STATE), "C12.step.ready-for-next-frame");
    VP_ASSERT(!(f & F_ESC_RC), "C12.step.invalid-escape-is-EILSEQ");
    VP_ASSERT(!(f & F_ESC_END_STATE),
              "C12.step.classic-END-after-ESC-is-a-delimiter");
    VP_ASSERT(!(f & F_S_GARBAGE_STATE),
              "C12.step.sof-missing-start-discards-rest-of-frame");
    VP_ASSERT(!(f & F_SRC), "C12.step.source-error-unchanged");
    VP_ASSERT(!(f & F_SRC_STATE), "C12.step.source-error-keeps-synchronisation-state");
    VP_ASSERT(!(f & F_SINK), "C12.step.sink-error-unchanged");

    /* ---- reachability of the interesting ways a call can go ---- */
    VP_WITNESS(r.oc == O_EOF && in.state == ST_N && r.m == K - 2
                   && r.exp[0] == C_ESC,
               "C12.step.frame.reach");
    VP_WITNESS(r.oc == O_BAD_ESC && r.bad2 != C_END && r.m >= 1
                   && o.rc == -EILSEQ,
               "C12.step.bad-esc.reach");
    VP_WITNESS(r.oc == O_SRC_ERR && r.midesc && r.m >= 1,
               "C12.step.source-error-mid-escape.reach");
    VP_WITNESS(r.oc == O_SRC_ERR && in.state == ST_E && r.c == K
                   && in.src_err == -EILSEQ,
               "C12.step.source-error-while-skipping.reach");
    VP_WITNESS(r.oc == O_SINK_ERR && r.m >= 1 && in.sink_err == -1,
               "C12.step.sink-error.reach");
#if !defined(SOF) || !SOF
    VP_WITNESS(!sof && r.oc == O_EOF && in.state == ST_E && r.m >= 1,
               "C12.step.classic-skip-then-frame.reach");
    VP_WITNESS(!sof && r.oc == O_BAD_ESC && r.bad2 == C_END && r.m >= 1,
               "C12.step.classic-esc-end.reach");
#endif
#if !defined(SOF) || SOF
    VP_WITNESS(sof && r.oc == O_EOF && in.state == ST_S && r.m >= 1
                   && r.exp[0] == C_END,
               "C12.step.sof-frame.reach");
    VP_WITNESS(sof && r.oc == O_S_GARBAGE && !r.skipped && o.rc == -EILSEQ,
               "C12.step.sof-missing-start.reach");
    VP_WITNESS(sof && r.oc == O_EOF && r.skipped && r.m >= 1,
               "C12.step.sof-skip-then-frame.reach");
#endif
}
VP_MAIN_EPILOGUE()
