/* C12 H3: one call of rfc1055_decode() from an ARBITRARY reachable decoder
 * state, on an arbitrary octet string of length 0..K followed by a source
 * error, into a sink that fails after an arbitrary number of octets.
 * Units: src/rfc1055.c, src/endpoints/core.c (linked unchanged); scripted
 * octet source / octet sink.
 *
 * The call is compared with a reference SLIP automaton written from RFC 1055,
 * the property text and the public state names of include/ufw/rfc1055.h:
 *
 *   SEARCH_FOR_START  (start-of-frame mode only) END -> in frame
 *   SEARCH_FOR_END    discard up to and including END, then classic: in frame,
 *                     start-of-frame mode: SEARCH_FOR_START
 *   NORMAL            in frame: ordinary octet -> emitted; ESC ESC_END -> END;
 *                     ESC ESC_ESC -> ESC; END -> end of frame, return 1,
 *                     classic: NORMAL again, start-of-frame: SEARCH_FOR_START;
 *                     ESC + anything else -> -EILSEQ
 *
 * Where the property is silent the check accepts everything: the state after
 * an error return (except: classic mode, invalid escape whose second octet is
 * END -- that END is "the next delimiter", so the decoder must be in frame
 * afterwards), the return value for a non-delimiter met while searching for
 * the start, the sink content on error returns.
 *
 * Because the decoder keeps no memory besides ctx->state (checked here: an
 * arbitrary pre-state), and every loop iteration consumes one or two octets,
 * the K-octet strings from every state exercise every transition followed by
 * every transition; streams of any length are sequences of these.
 */
#include "c12_common.h"
#include <string.h>

#ifndef K
#define K 4
#endif

enum { O_NONE, O_EOF, O_BAD_ESC, O_S_GARBAGE, O_SRC_ERR, O_SINK_ERR };

struct vp_in {
    uint8_t sof;
    uint8_t state;
    uint8_t k;
    uint8_t oct[K];
    int src_err;
    uint8_t cap;
    int sink_err;
};
VP_DECLARE_INPUT();

void harness(void)
{
    VP_INPUT(in);
#ifdef SOF
    const bool sof = SOF;
#else
    const bool sof = in.sof != 0;
    VP_ASSUME(in.sof <= 1);
#endif
    VP_ASSUME(in.state == ST_S || in.state == ST_E || in.state == ST_N);
    /* reachable: classic mode never searches for a start delimiter */
    VP_ASSUME(sof || in.state != ST_S);
    VP_ASSUME(in.k <= K);
    VP_ASSUME(in.cap <= K);
    VP_ASSUME(c12_is_error(in.src_err));
    VP_ASSUME(c12_is_error(in.sink_err));
    const c12_len k = in.k;
    const c12_len cap = in.cap;

    /* ---- reference automaton over one call ---- */
    unsigned st = in.state;
    c12_len c = 0, m = 0;
    uint8_t exp[K];
    int oc = O_NONE;
    uint8_t bad2 = 0;
    bool midesc = false;
    for (unsigned it = 0; it <= K; ++it) {
        if (oc != O_NONE)
            break;
        if (c == k) {
            oc = O_SRC_ERR;
            break;
        }
        const uint8_t o = in.oct[c];
        if (st == ST_S) {
            c++;
            if (o == C_END)
                st = ST_N;
            else
                oc = O_S_GARBAGE;
        } else if (st == ST_E) {
            c++;
            if (o == C_END)
                st = sof ? ST_S : ST_N;
        } else {
            uint8_t v = o;
            if (o == C_END) {
                c++;
                oc = O_EOF;
                st = sof ? ST_S : ST_N;
                break;
            }
            if (o == C_ESC) {
                if (c + 1 == k) {
                    c++;
                    oc = O_SRC_ERR;
                    midesc = true;
                    break;
                }
                const uint8_t o2 = in.oct[c + 1];
                c += 2;
                if (o2 == C_ESC_END) {
                    v = C_END;
                } else if (o2 == C_ESC_ESC) {
                    v = C_ESC;
                } else {
                    oc = O_BAD_ESC;
                    bad2 = o2;
                    break;
                }
            } else {
                c++;
            }
            if (m == cap) {
                oc = O_SINK_ERR;
                break;
            }
            exp[m++] = v;
        }
    }

    /* ---- the real call ---- */
    uint8_t octets[K];
    C12_COPY(octets, in.oct);
    uint8_t out[K];
    C12_FILL(out, 0);
    struct ssrc src = { .data = octets, .n = k, .pos = 0, .err = in.src_err };
    struct ssink snk = { .data = out, .phys = K, .cap = cap, .n = 0,
                         .err = in.sink_err };
    Source source = OCTET_SOURCE_INIT(ssrc_get, &src);
    Sink sink = OCTET_SINK_INIT(ssink_put, &snk);
    RFC1055Context ctx;
    ctx.state = in.state;
    ctx.flags = sof ? RFC1055_WITH_SOF : RFC1055_DEFAULT;

    const int rc = rfc1055_decode(&ctx, &source, &sink);

    /* ---- every outcome ---- */
    VP_ASSERT(!snk.overflow && snk.n <= src.pos,
              "C12.step.never-emits-more-than-consumed");
    VP_ASSERT(ctx.flags == (sof ? RFC1055_WITH_SOF : RFC1055_DEFAULT),
              "C12.step.mode-unchanged");

    switch (oc) {
    case O_EOF:
        VP_ASSERT(rc == 1, "C12.step.END-in-frame-signals-end-of-frame");
        VP_ASSERT(src.pos == c, "C12.step.frame-consumed-up-to-its-END");
        VP_ASSERT(snk.n == m, "C12.step.frame-length");
        for (c12_len i = 0; i < K; ++i)
            if (i < m)
                VP_ASSERT(out[i] == exp[i], "C12.step.frame-octets");
        VP_ASSERT(ctx.state == (sof ? ST_S : ST_N),
                  "C12.step.ready-for-next-frame");
        VP_WITNESS(in.state == ST_E && m >= 1, "C12.step.skip-then-frame.reach");
        VP_WITNESS(in.state == ST_N && m == K - 1, "C12.step.frame.reach");
#if !defined(SOF) || SOF
        VP_WITNESS(sof && in.state == ST_S && m >= 1 && exp[0] == C_END,
                   "C12.step.sof-frame.reach");
#endif
        break;
    case O_BAD_ESC:
        VP_ASSERT(rc == -EILSEQ, "C12.step.invalid-escape-is-EILSEQ");
        if (!sof && bad2 == C_END)
            VP_ASSERT(ctx.state == ST_N,
                      "C12.step.classic-END-after-ESC-is-a-delimiter");
#if !defined(SOF) || !SOF
        VP_WITNESS(!sof && bad2 == C_END && m >= 1, "C12.step.esc-end.reach");
#endif
        VP_WITNESS(bad2 != C_END && in.state == ST_E, "C12.step.bad-esc.reach");
        break;
    case O_S_GARBAGE:
        /* the property does not say how a missing start delimiter is
         * reported */
#if !defined(SOF) || SOF
        VP_WITNESS(in.state == ST_E && rc == -EILSEQ,
                   "C12.step.missing-start.reach");
#endif
        break;
    case O_SRC_ERR:
        VP_ASSERT(rc == in.src_err, "C12.step.source-error-unchanged");
        VP_WITNESS(midesc && m >= 1, "C12.step.source-error-mid-escape.reach");
        VP_WITNESS(in.state == ST_E && c == K && in.src_err == -EILSEQ,
                   "C12.step.source-error-while-skipping.reach");
        break;
    case O_SINK_ERR:
        VP_ASSERT(rc == in.sink_err, "C12.step.sink-error-unchanged");
        VP_WITNESS(m >= 1 && in.sink_err == -1, "C12.step.sink-error.reach");
        break;
    default:
        VP_ASSERT(false, "C12.step.reference-terminates");
        break;
    }
}
VP_MAIN_EPILOGUE()
