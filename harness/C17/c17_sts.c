/* C17 H4: source-to-sink plumbing between a scripted source and a scripted
 * sink (getbuffer extension NULL, as every shipped endpoint has it).
 * Units: src/endpoints/core.c, src/byte-buffer.c (linked unchanged).
 * -DSRC_OCTET / -DSNK_OCTET select octet-style drivers (default chunk style).
 *
 * Classes of operations and their oracle (property text):
 *   at-most  (sts_cbc, sts_some, sts_atmost, sts_some_aux, sts_atmost_aux):
 *            never more than asked reaches the sink; a non-negative return is
 *            the count that reached the sink and nothing taken from the source
 *            was lost; no error unless a driver reported one.
 *   counted  (sts_n_cbc, sts_n, sts_n_aux): success <=> exactly the next N
 *            octets of the source reached the sink, return == N, source
 *            advanced by exactly N; success is mandatory when no driver call
 *            failed; a hard driver error or a source that ends early => error.
 *   drain    (sts_drain_cbc, sts_drain, sts_drain_aux): when nothing but the
 *            source's end (-ENODATA) stops it, everything up to the source's
 *            end reached the sink.
 *   always:  what reached the sink is a prefix of the stream; octets of the
 *            auxiliary buffer's memory outside its designated region are
 *            untouched (region = the unread octets data[offset..used) for
 *            some/atmost; data[0..used) for n/drain, which rewind the buffer).
 */
#define MOVEMAX (NMAX + 1)
#include "c17_drv.h"

#define SMAX (NMAX + 1) /* stream array: one more than the largest count */
#ifndef AUXMAX
#define AUXMAX 3
#endif

#if defined(OP_SOME_AUX) || defined(OP_ATMOST_AUX) || defined(OP_N_AUX) || defined(OP_DRAIN_AUX)
#define IS_AUX 1
#else
#define IS_AUX 0
#endif
#if defined(OP_N_CBC) || defined(OP_N) || defined(OP_N_AUX)
#define IS_COUNTED 1
#else
#define IS_COUNTED 0
#endif
#if defined(OP_DRAIN_CBC) || defined(OP_DRAIN) || defined(OP_DRAIN_AUX)
#define IS_DRAIN 1
#else
#define IS_DRAIN 0
#endif

#ifdef SRC_OCTET
#define SRC_IS_OCTET true
#else
#define SRC_IS_OCTET false
#endif
#ifdef SNK_OCTET
#define SNK_IS_OCTET true
#else
#define SNK_IS_OCTET false
#endif

struct vp_in {
    uint8_t n;    /* count for the counted / at-most operations */
    uint8_t slen; /* the source ends after slen octets */
    int32_t src_err, snk_err;
    struct c17_step src_script[SLEN], snk_script[SLEN];
    uint8_t stream[SMAX];
    uint8_t aux_size, aux_used, aux_offset;
    uint8_t aux_fill[AUXMAX + 2 * GUARD];
};
VP_DECLARE_INPUT();

#define sd c17_sd
#define kd c17_kd
static unsigned char stream[SMAX];
static unsigned char recv[SMAX];
static unsigned char aux[AUXMAX + 2 * GUARD];
static unsigned char aux_old[AUXMAX + 2 * GUARD];

void harness(void)
{
    VP_INPUT(in);
    VP_ASSUME(c17_script_ok(in.src_script));
    VP_ASSUME(c17_script_ok(in.snk_script));
    VP_ASSUME(c17_err_ok(in.src_err));
    VP_ASSUME(c17_err_ok(in.snk_err));
    VP_ASSUME(in.slen <= SMAX);
    VP_ASSUME(in.n <= NMAX);
    const size_t n = in.n, slen = in.slen;
    for (unsigned i = 0; i < SMAX; ++i)
        stream[i] = in.stream[i];

    /* auxiliary buffer: any valid state with a non-empty designated region */
    VP_ASSUME(in.aux_size >= 1 && in.aux_size <= AUXMAX);
    VP_ASSUME(in.aux_offset < in.aux_used && in.aux_used <= in.aux_size);
    for (unsigned i = 0; i < AUXMAX + 2 * GUARD; ++i)
        aux[i] = aux_old[i] = in.aux_fill[i];
    ByteBuffer b = { .data = aux + GUARD, .size = in.aux_size, .used = in.aux_used,
                     .offset = in.aux_offset };
    const size_t region = (size_t)in.aux_used - in.aux_offset;

    /* how many octets the operation is allowed to move */
    bool limited = true;
    size_t asked = 0;
#if defined(OP_CBC)
    asked = 1;
#elif defined(OP_SOME)
    limited = false;
#elif defined(OP_ATMOST)
    VP_ASSUME(n >= 1);
    asked = n;
#elif defined(OP_SOME_AUX)
    asked = region;
#elif defined(OP_ATMOST_AUX)
    VP_ASSUME(n >= 1);
    asked = n < region ? n : region;
#elif IS_COUNTED
    asked = n;
#elif IS_DRAIN
    limited = false;
#else
#error "no OP"
#endif

    /* a source may be called once more after it reported an error when an
     * at-most read has to return the octets it already took first (octet
     * driver behind the auxiliary-buffer operations); errors are sticky */
    c17_src_init(in.src_script, stream, slen, limited, asked, in.src_err,
                 (IS_AUX && SRC_IS_OCTET) ? 1u : 0u);
    c17_snk_init(in.snk_script, recv, SMAX, true, limited ? asked : slen, in.snk_err, 0u);
    Source src;
    Sink snk;
    c17_source(&src, SRC_IS_OCTET);
    c17_sink(&snk, SNK_IS_OCTET);

    ssize_t rc;
#if defined(OP_CBC)
    rc = sts_cbc(&src, &snk);
#elif defined(OP_SOME)
    rc = sts_some(&src, &snk);
#elif defined(OP_ATMOST)
    rc = sts_atmost(&src, &snk, n);
#elif defined(OP_SOME_AUX)
    rc = sts_some_aux(&src, &snk, &b);
#elif defined(OP_ATMOST_AUX)
    rc = sts_atmost_aux(&src, &snk, &b, n);
#elif defined(OP_N_CBC)
    rc = sts_n_cbc(&src, &snk, n);
#elif defined(OP_N)
    rc = sts_n(&src, &snk, n);
#elif defined(OP_N_AUX)
    rc = sts_n_aux(&src, &snk, &b, n);
#elif defined(OP_DRAIN_CBC)
    rc = sts_drain_cbc(&src, &snk);
#elif defined(OP_DRAIN)
    rc = sts_drain(&src, &snk);
#elif defined(OP_DRAIN_AUX)
    rc = sts_drain_aux(&src, &snk, &b);
#endif

    const bool any_neg = sd.neg_seen || kd.neg_seen;
    const bool any_hard = sd.hard_seen || kd.hard_seen;

    /* always: the sink holds a prefix of the stream, in order */
    VP_ASSERT(c17_same(recv, stream, kd.pos, SMAX), "C17.sts.sink-holds-prefix-of-stream");
    VP_ASSERT(kd.pos <= sd.pos, "C17.sts.sink-not-ahead-of-source");

#if IS_COUNTED
    if (rc >= 0) {
        VP_ASSERT(rc == (ssize_t)n, "C17.sts.counted.success-is-n");
        VP_ASSERT(kd.pos == n, "C17.sts.counted.sink-received-exactly-n");
        VP_ASSERT(sd.pos == n, "C17.sts.counted.source-advanced-exactly-n");
    }
    if (!any_neg)
        VP_ASSERT(rc == (ssize_t)n, "C17.sts.counted.succeeds-when-no-driver-error");
    if (any_hard || sd.dry_seen)
        VP_ASSERT(rc < 0, "C17.sts.counted.failure-reported");
    VP_WITNESS(rc == (ssize_t)n && n == NMAX && sd.stalls > 0 && kd.stalls > 0, "C17.sts.counted.full-with-stalls.reach");
    VP_WITNESS(rc < 0 && kd.hard_seen && kd.pos > 0 && in.snk_err == -ENOMEM, "C17.sts.counted.sink-enomem-after-progress.reach");
    VP_WITNESS(rc < 0 && sd.dry_seen && kd.pos > 0, "C17.sts.counted.source-ends-early.reach");
    VP_WITNESS(rc < 0 && sd.hard_seen && kd.pos > 0, "C17.sts.counted.source-hard-after-progress.reach");
#if defined(OP_N_AUX)
    VP_WITNESS(rc == (ssize_t)n && n == NMAX && region < n, "C17.sts.n-aux.several-rounds.reach");
#endif
#elif IS_DRAIN
    if (!sd.hard_seen && !sd.eintr_seen && !sd.eagain_seen && !sd.breach && !kd.neg_seen) {
        VP_ASSERT(kd.pos == slen, "C17.sts.drain.everything-up-to-source-end");
        VP_ASSERT(sd.pos == slen, "C17.sts.drain.source-exhausted");
    }
    if (any_hard)
        VP_ASSERT(rc < 0, "C17.sts.drain.failure-reported");
    VP_WITNESS(kd.pos == slen && slen == SMAX && sd.stalls > 0 && kd.stalls > 0, "C17.sts.drain.full-with-stalls.reach");
    VP_WITNESS(kd.hard_seen && kd.pos > 0, "C17.sts.drain.sink-hard-after-progress.reach");
#if defined(OP_DRAIN_AUX)
    VP_WITNESS(kd.pos == slen && slen >= 3 && (slen & 1u) == 1u && region == 2 && sd.dry_seen, "C17.sts.drain-aux.tail-shorter-than-region.reach");
#endif
#else /* at-most class */
    if (rc >= 0) {
        VP_ASSERT((size_t)rc == kd.pos, "C17.sts.atmost.returns-count-moved");
        VP_ASSERT(sd.pos == kd.pos, "C17.sts.atmost.nothing-lost-on-success");
    }
    if (limited)
        VP_ASSERT(kd.pos <= asked, "C17.sts.atmost.never-more-than-asked");
    if (!any_neg)
        VP_ASSERT(rc >= 0, "C17.sts.atmost.no-spurious-error");
    VP_WITNESS(rc >= 1 && sd.stalls + kd.stalls > 0, "C17.sts.atmost.moved-with-stall.reach");
    VP_WITNESS(rc < 0 && kd.hard_seen, "C17.sts.atmost.sink-hard.reach");
#if defined(OP_SOME_AUX) || defined(OP_ATMOST_AUX)
    VP_WITNESS(rc >= 1 && (size_t)rc < asked, "C17.sts.atmost-aux.short.reach");
#endif
#if defined(OP_ATMOST_AUX)
    VP_WITNESS(rc >= 1 && (size_t)rc == asked && asked < region, "C17.sts.atmost-aux.limited-by-n.reach");
#endif
#endif

    /* auxiliary buffer frame */
#if IS_AUX
#if defined(OP_SOME_AUX) || defined(OP_ATMOST_AUX)
    VP_ASSERT(c17_frame(aux, aux_old, sizeof aux, GUARD + in.aux_offset, GUARD + in.aux_used),
              "C17.sts.aux.nothing-outside-unread-region");
#else
    VP_ASSERT(c17_frame(aux, aux_old, sizeof aux, GUARD, GUARD + in.aux_used),
              "C17.sts.aux.nothing-outside-used-region");
#endif
#else
    VP_ASSERT(c17_frame(aux, aux_old, sizeof aux, 0, 0), "C17.sts.aux.unused-untouched");
#endif
}
VP_MAIN_EPILOGUE()
