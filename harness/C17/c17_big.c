/* C17 (pointer level): exact-N transfers through CHUNK-style drivers for
 * arbitrary N up to BIGMAX (default 2^34, beyond 32 bits) -- the octets are
 * not moved: the driver stub only records what it was asked for and answers
 * from a script. Checks the bookkeeping of source_get_chunk / sink_put_chunk
 * (src/endpoints/core.c): every call asks for exactly the octets still
 * missing, at the position right behind those already moved; progress,
 * zero-length answers and EINTR/EAGAIN are told apart at full ssize_t width;
 * the call returns N, or the hard error unchanged.
 * Bound: the script finishes the transfer (or fails hard) within CALLS driver
 * calls. */
#include <vp.h>
#include <ufw/compat/errno.h>
#include <ufw/compat/ssize-t.h>
#include <ufw/endpoints.h>

#ifndef CALLS
#define CALLS 3
#endif
#ifndef BIGMAX
#define BIGMAX (1ull << 34)
#endif

struct vp_in {
    uint64_t n;
    int64_t ans[CALLS];
};
VP_DECLARE_INPUT();

static unsigned char store[8];
static struct {
    const struct vp_in *in;
    uint64_t asked[CALLS + 1];
    uint64_t at[CALLS + 1];
    unsigned calls;
} L;

static ssize_t drv(void *driver, void *buf, size_t n)
{
    (void)driver;
    const unsigned k = L.calls < CALLS ? L.calls : CALLS;
    L.asked[k] = n;
#ifdef VP_REPLAY
    L.at[k] = (uint64_t)((uintptr_t)buf - (uintptr_t)store);
#else
    /* the position is far outside the 8-octet stand-in object (nothing is
     * dereferenced): read the offset part of the pointer */
    L.at[k] = __CPROVER_same_object(buf, store) ? (uint64_t)__CPROVER_POINTER_OFFSET(buf) : ~(uint64_t)0;
#endif
    L.calls++;
    if (L.calls > CALLS)
        return -EIO; /* breach: ends every loop */
    return (ssize_t)L.in->ans[k];
}

static ssize_t drv_put(void *driver, const void *buf, size_t n)
{
    return drv(driver, (void *)buf, n);
}

void harness(void)
{
    VP_INPUT(in);
    L.in = &in;
    L.calls = 0;
    VP_ASSUME(in.n >= 1 && in.n <= BIGMAX);

    /* what the script amounts to */
    uint64_t rest = in.n;
    int64_t expect = 0;
    unsigned ncalls = 0;
    bool finished = false, big_seen = false, retry_seen = false;
    uint64_t want_n[CALLS], want_at[CALLS];
    for (unsigned k = 0; k < CALLS; ++k) {
        want_n[k] = want_at[k] = 0;
        if (finished)
            continue;
        const int64_t a = in.ans[k];
        want_n[k] = rest;
        want_at[k] = in.n - rest;
        ncalls++;
        if (a == -EINTR || a == -EAGAIN || a == 0) {
            retry_seen = true;
            continue;
        }
        if (a < 0) {
            expect = a;
            finished = true;
            continue;
        }
        VP_ASSUME((uint64_t)a <= rest); /* driver contract: never more than asked */
        if ((uint64_t)a > 0xffffffffull || (uint32_t)a >= 0xfffffff0u)
            big_seen = true;
        rest -= (uint64_t)a;
        if (rest == 0) {
            expect = (int64_t)in.n;
            finished = true;
        }
    }
    VP_ASSUME(finished);

#if defined(OP_GET)
    Source src = CHUNK_SOURCE_INIT(drv, NULL);
    const ssize_t rc = source_get_chunk(&src, store, (size_t)in.n);
#else
    Sink snk = CHUNK_SINK_INIT(drv_put, NULL);
    const ssize_t rc = sink_put_chunk(&snk, store, (size_t)in.n);
#endif
    VP_ASSERT(L.calls == ncalls, "C17.big.one-driver-call-per-script-entry");
    for (unsigned k = 0; k < CALLS; ++k)
        if (k < ncalls && k < L.calls) {
            VP_ASSERT(L.asked[k] == want_n[k], "C17.big.asks-for-exactly-the-missing-octets");
            VP_ASSERT(L.at[k] == want_at[k], "C17.big.continues-right-behind-what-was-moved");
        }
    VP_ASSERT((int64_t)rc == expect, "C17.big.returns-N-or-the-hard-error");

    VP_WITNESS(expect == (int64_t)in.n && ncalls == CALLS && big_seen && retry_seen, "C17.big.beyond-32-bit.reach");
    VP_WITNESS(expect < 0 && ncalls == 2 && in.n > 0xffffffffull, "C17.big.hard-error-after-progress.reach");
}
VP_MAIN_EPILOGUE()
