/* C17 H1/H2/H3: source_get_chunk, sink_put_chunk and the at-most variants over a
 * scripted driver (octet style with -DKIND_OCTET, else chunk style).
 * Units: src/endpoints/core.c (linked unchanged).
 *
 * Oracle (from the property text and the contract in core.c's header comment):
 *   N == 0 or N > SSIZE_MAX  => -EINVAL, driver never called, nothing touched;
 *   otherwise fold the script: a hard error before N octets were moved => that
 *   error, unchanged; else success: returns N, the destination (the sink) holds
 *   exactly the next N octets of the stream (the caller's buffer) in order, the
 *   driver position advanced by exactly N, nothing outside the N octets written.
 *   at-most: never more than asked (stub assertion), a non-negative return is
 *   the count moved and those octets are the next ones in order.
 */
#include "c17_drv.h"

#ifdef KIND_OCTET
#define OCTET true
#define W_OCTET(c, l) VP_WITNESS(c, l)
#define W_CHUNK(c, l)
#else
#define OCTET false
#define W_OCTET(c, l)
#define W_CHUNK(c, l) VP_WITNESS(c, l)
#endif

struct vp_in {
    uint64_t n;
    int32_t hard_err;
    struct c17_step script[SLEN];
    uint8_t stream[NMAX];           /* source stream / caller's buffer (put) */
    uint8_t fill[NMAX + 2 * GUARD]; /* initial destination / sink store */
};
VP_DECLARE_INPUT();

static unsigned char store[NMAX + 2 * GUARD];
static unsigned char old[NMAX + 2 * GUARD];
static unsigned char stream[NMAX];

void harness(void)
{
    VP_INPUT(in);
    VP_ASSUME(c17_script_ok(in.script));
    VP_ASSUME(c17_err_ok(in.hard_err));
#if defined(OP_GET) || defined(OP_PUT)
    VP_ASSUME(in.n <= NMAX || in.n > (uint64_t)SSIZE_MAX);
#else
    VP_ASSUME(in.n >= 1 && in.n <= NMAX);
#endif
    const size_t n = (size_t)in.n;
    const bool valid = (n != 0 && n <= (size_t)SSIZE_MAX);
    const size_t nn = valid ? n : 0;

    for (unsigned i = 0; i < NMAX + 2 * GUARD; ++i)
        store[i] = old[i] = in.fill[i];
    for (unsigned i = 0; i < NMAX; ++i)
        stream[i] = in.stream[i];
    unsigned char *const area = store + GUARD;

#if defined(OP_GET) || defined(OP_GET_ATMOST)
#define drv c17_sd
    /* the source owns the stream; `area` is the caller's destination */
    c17_src_init(in.script, stream, NMAX, true, nn, in.hard_err, 0);
    Source src;
    c17_source(&src, OCTET);
#else
#define drv c17_kd
    /* `area` is the sink's store; the caller's buffer is the last n octets of
     * `stream` so that an over-read leaves the object */
    c17_snk_init(in.script, area, NMAX, true, nn, in.hard_err, 0);
    Sink snk;
    c17_sink(&snk, OCTET);
    const unsigned char *const buf = stream + (NMAX - nn);
#endif

#if defined(OP_GET)
    const ssize_t rc = source_get_chunk(&src, area, n);
    if (!valid) {
        VP_ASSERT(rc == -EINVAL, "C17.get.invalid-n-refused");
        VP_ASSERT(drv.calls == 0, "C17.get.invalid-n-driver-not-called");
        VP_ASSERT(c17_frame(store, old, sizeof store, 0, 0), "C17.get.invalid-n-nothing-written");
        VP_WITNESS(n == 0, "C17.get.zero.reach");
        VP_WITNESS(n > (size_t)SSIZE_MAX, "C17.get.huge.reach");
    } else {
        if (drv.hard_seen)
            VP_ASSERT(rc == in.hard_err, "C17.get.hard-error-unchanged");
        else
            VP_ASSERT(rc == (ssize_t)n, "C17.get.returns-n");
        if (rc >= 0) {
            VP_ASSERT(rc == (ssize_t)n, "C17.get.success-is-n");
            VP_ASSERT(drv.pos == n, "C17.get.stream-advanced-by-n");
            VP_ASSERT(c17_same(area, stream, n, NMAX), "C17.get.next-n-octets-in-order");
        }
        VP_ASSERT(c17_frame(store, old, sizeof store, GUARD, GUARD + n), "C17.get.nothing-outside-n");
        W_CHUNK(rc == (ssize_t)n && n == NMAX && drv.partial_seen, "C17.get.chunk-partial.reach");
        W_OCTET(rc == (ssize_t)n && n == NMAX && drv.stalls == STALL, "C17.get.octet-stalls.reach");
        VP_WITNESS(rc == (ssize_t)n && drv.zero_seen && drv.eintr_seen, "C17.get.zero-eintr.reach");
        VP_WITNESS(rc == (ssize_t)n && drv.eagain_seen && drv.pos > 1, "C17.get.eagain.reach");
        VP_WITNESS(rc < 0 && drv.hard_seen && drv.pos > 0 && in.hard_err == -EIO, "C17.get.hard-after-progress.reach");
    }
#elif defined(OP_PUT)
    const ssize_t rc = sink_put_chunk(&snk, buf, n);
    if (!valid) {
        VP_ASSERT(rc == -EINVAL, "C17.put.invalid-n-refused");
        VP_ASSERT(drv.calls == 0, "C17.put.invalid-n-driver-not-called");
        VP_WITNESS(n == 0, "C17.put.zero.reach");
        VP_WITNESS(n > (size_t)SSIZE_MAX, "C17.put.huge.reach");
    } else {
        if (drv.hard_seen)
            VP_ASSERT(rc == in.hard_err, "C17.put.hard-error-unchanged");
        else
            VP_ASSERT(rc == (ssize_t)n, "C17.put.returns-n");
        if (rc >= 0) {
            VP_ASSERT(rc == (ssize_t)n, "C17.put.success-is-n");
            VP_ASSERT(drv.pos == n, "C17.put.sink-received-n");
        }
        /* what reached the sink is always a prefix of the caller's octets */
        VP_ASSERT(c17_same(area, buf, drv.pos, NMAX), "C17.put.sink-holds-prefix-in-order");
        W_CHUNK(rc == (ssize_t)n && n == NMAX && drv.partial_seen, "C17.put.chunk-partial.reach");
        W_OCTET(rc == (ssize_t)n && n == NMAX && drv.stalls == STALL, "C17.put.octet-stalls.reach");
        VP_WITNESS(rc == (ssize_t)n && drv.zero_seen && drv.eintr_seen, "C17.put.zero-eintr.reach");
        VP_WITNESS(rc == (ssize_t)n && drv.eagain_seen && drv.pos > 1, "C17.put.eagain.reach");
        VP_WITNESS(rc < 0 && drv.hard_seen && drv.pos > 0 && in.hard_err == -ENOMEM, "C17.put.hard-after-progress.reach");
    }
    /* the caller's buffer is read-only for the library */
    VP_ASSERT(c17_same(stream, in.stream, NMAX, NMAX), "C17.put.buffer-unchanged");
#elif defined(OP_GET_ATMOST)
    const ssize_t rc = source_get_chunk_atmost(&src, area, n);
    /* "never more than asked" is the stub's asked-beyond-N assertion */
    VP_ASSERT(drv.pos <= n, "C17.get-atmost.never-more-than-asked");
    if (rc >= 0) {
        VP_ASSERT((size_t)rc == drv.pos, "C17.get-atmost.returns-count-moved");
        VP_ASSERT(c17_same(area, stream, drv.pos, NMAX), "C17.get-atmost.next-octets-in-order");
    }
    if (!drv.neg_seen)
        VP_ASSERT(rc >= 0, "C17.get-atmost.no-spurious-error");
    VP_ASSERT(c17_frame(store, old, sizeof store, GUARD, GUARD + n), "C17.get-atmost.nothing-outside-n");
    W_CHUNK(rc > 0 && (size_t)rc < n, "C17.get-atmost.chunk-short.reach");
    W_OCTET(rc == (ssize_t)n && n == NMAX && drv.stalls > 0, "C17.get-atmost.octet-full.reach");
    W_OCTET(drv.hard_seen && drv.pos > 0, "C17.get-atmost.octet-hard-after-progress.reach");
#elif defined(OP_PUT_ATMOST)
    const ssize_t rc = sink_put_chunk_atmost(&snk, buf, n);
    VP_ASSERT(drv.pos <= n, "C17.put-atmost.never-more-than-asked");
    if (rc >= 0)
        VP_ASSERT((size_t)rc == drv.pos, "C17.put-atmost.returns-count-moved");
    VP_ASSERT(c17_same(area, buf, drv.pos, NMAX), "C17.put-atmost.sink-holds-prefix-in-order");
    if (!drv.neg_seen)
        VP_ASSERT(rc >= 0, "C17.put-atmost.no-spurious-error");
    VP_ASSERT(c17_same(stream, in.stream, NMAX, NMAX), "C17.put-atmost.buffer-unchanged");
    W_CHUNK(rc > 0 && (size_t)rc < n, "C17.put-atmost.chunk-short.reach");
    W_OCTET(rc == (ssize_t)n && n == NMAX && drv.stalls > 0, "C17.put-atmost.octet-full.reach");
    W_OCTET(drv.hard_seen && drv.pos > 0, "C17.put-atmost.octet-hard-after-progress.reach");
#else
#error "no OP"
#endif
}
VP_MAIN_EPILOGUE()
