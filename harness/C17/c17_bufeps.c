/* C17 H5: the shipped buffer-backed and trivial endpoints (src/endpoints/buffer.c,
 * src/endpoints/trivial.c) driven through the public API of src/endpoints/core.c,
 * compared with the byte-buffer FIFO model of C18 (stream = the unread octets
 * data[offset..used), for ByteChunks the concatenation over the chunks from
 * `active` on; free space = size - used).
 * Units: core.c, buffer.c, trivial.c, byte-buffer.c (linked unchanged).
 *
 *   MODE_BUF_SOURCE    source_from_buffer: get_chunk / get_chunk_atmost / get_octet
 *   MODE_CHUNKS_SOURCE source_from_chunks: get_chunk / get_chunk_atmost (short
 *                      returns at every chunk boundary: a real chunk driver
 *                      that "returns short")
 *   MODE_BUF_SINK      sink_to_buffer: put_chunk / put_chunk_atmost / put_octet
 *   MODE_TRIVIAL       source_zero, source_empty, sink_null
 *   MODE_PLUMB         sts_* from source_from_buffer into sink_to_buffer
 */
#include <vp.h>
#include <string.h>
#include <ufw/compat/errno.h>
#include <ufw/compat/ssize-t.h>
#include <ufw/endpoints.h>

#ifndef SZ
#define SZ 3 /* largest buffer */
#endif
#ifndef NCH
#define NCH 2 /* chunks of a ByteChunks source */
#endif
#ifndef SZC
#define SZC 2 /* largest chunk */
#endif
#define GUARD 2
#define TOTAL (NCH * SZC)
#define NOP (SZ + 1) /* largest operand */
#ifndef LAYOUTS
#define LAYOUTS 9 /* (SZC + 1) ^ NCH */
#endif

struct bufst {
    uint8_t size, used, offset;
    uint8_t mem[SZ];
};

struct vp_in {
    uint8_t op;
    uint8_t n;
    struct bufst b;         /* the buffer behind the source / sink */
    struct bufst c[NCH];    /* chunks (only the first SZC octets are used) */
    uint8_t operand[NOP];   /* caller's octets (put) */
    uint8_t fill[TOTAL + NOP + 2 * GUARD]; /* initial destination */
    struct bufst aux;
    struct bufst s;         /* the buffer behind the source (plumbing) */
};
VP_DECLARE_INPUT();

static unsigned char mem[SZ + 2 * GUARD], mem_old[SZ + 2 * GUARD];
static unsigned char cmem[NCH][SZC];
static unsigned char dst[TOTAL + NOP + 2 * GUARD], dst_old[TOTAL + NOP + 2 * GUARD];
static unsigned char operand[NOP];
static unsigned char auxmem[SZ + 2 * GUARD], aux_old[SZ + 2 * GUARD];
static unsigned char model[TOTAL + SZ]; /* the stream the source holds */
static ByteBuffer cb[NCH];

static bool valid(const struct bufst *s, unsigned max)
{
    return s->size >= 1 && s->size <= max && s->offset <= s->used && s->used <= s->size;
}

static bool same(const unsigned char *a, const unsigned char *b, size_t n, size_t max)
{
    bool r = true;
    for (size_t i = 0; i < max; ++i)
        if (i < n && a[i] != b[i])
            r = false;
    return r;
}

static bool frame(const unsigned char *a, const unsigned char *old, size_t len, size_t lo, size_t hi)
{
    bool r = true;
    for (size_t i = 0; i < len; ++i)
        if ((i < lo || i >= hi) && a[i] != old[i])
            r = false;
    return r;
}

/* unread octets of the chunk list, in order */
static size_t chunks_stream(const ByteChunks *bc, unsigned char *out)
{
    size_t k = 0;
    for (size_t c = 0; c < NCH; ++c) {
        if (c < bc->active || c >= bc->chunks)
            continue;
        for (size_t i = 0; i < SZC; ++i)
            if (i >= cb[c].offset && i < cb[c].used)
                out[k++] = cb[c].data[i];
    }
    return k;
}

void harness(void)
{
    VP_INPUT(in);
    VP_ASSUME(in.n <= NOP);
    const size_t n = in.n;
    for (unsigned i = 0; i < sizeof dst; ++i)
        dst[i] = dst_old[i] = in.fill[i];
    unsigned char *const d = dst + GUARD;
    for (unsigned i = 0; i < NOP; ++i)
        operand[i] = in.operand[i];
    /* caller's octets end exactly with the array */
    const unsigned char *const opnd = operand + (NOP - n);

    VP_ASSUME(valid(&in.b, SZ));
    for (unsigned i = 0; i < SZ + 2 * GUARD; ++i)
        mem[i] = mem_old[i] = (i >= GUARD && i < GUARD + SZ) ? in.b.mem[i - GUARD] : (unsigned char)(0xA0 + i);
    ByteBuffer b = { .data = mem + GUARD, .size = in.b.size, .used = in.b.used, .offset = in.b.offset };
    const size_t size = in.b.size, used = in.b.used, offset = in.b.offset;
    const size_t rest = used - offset, avail = size - used;

#if defined(MODE_BUF_SOURCE)
    Source src;
    source_from_buffer(&src, &b);
    VP_ASSERT(src.ext.getbuffer == NULL, "C17.buf.no-getbuffer-extension");
    ssize_t rc;
    size_t moved = 0; /* octets the model says were delivered */
    switch (in.op % 3) {
    case 0:
        VP_ASSUME(n >= 1);
        rc = source_get_chunk(&src, d, n);
        if (n <= rest) {
            VP_ASSERT(rc == (ssize_t)n, "C17.buf.get.returns-n");
            VP_ASSERT(b.offset == offset + n, "C17.buf.get.consumes-exactly-n");
            moved = n;
            VP_WITNESS(n == SZ && offset == 0, "C17.buf.get.full.reach");
        } else {
            VP_ASSERT(rc < 0, "C17.buf.get.short-stream-is-error");
            VP_ASSERT(b.offset >= offset && b.offset <= used, "C17.buf.get.offset-bounded");
            VP_WITNESS(rest >= 1 && n == rest + 1, "C17.buf.get.dry-after-progress.reach");
        }
        VP_ASSERT(frame(dst, dst_old, sizeof dst, GUARD, GUARD + n), "C17.buf.get.nothing-outside-n");
        break;
    case 1:
        VP_ASSUME(n >= 1);
        rc = source_get_chunk_atmost(&src, d, n);
        if (rest == 0) {
            VP_ASSERT(rc < 0, "C17.buf.get-atmost.empty-is-error");
        } else {
            VP_ASSERT(rc >= 0 && (size_t)rc <= (n < rest ? n : rest), "C17.buf.get-atmost.count-in-range");
            moved = (size_t)rc;
            VP_ASSERT(b.offset == offset + moved, "C17.buf.get-atmost.consumes-count");
            VP_WITNESS(n > rest && rest >= 2, "C17.buf.get-atmost.short.reach");
        }
        VP_ASSERT(frame(dst, dst_old, sizeof dst, GUARD, GUARD + n), "C17.buf.get-atmost.nothing-outside-n");
        break;
    default:
        rc = source_get_octet(&src, d);
        if (rest == 0) {
            VP_ASSERT(rc < 0, "C17.buf.get-octet.empty-is-error");
        } else {
            VP_ASSERT(rc == 1, "C17.buf.get-octet.one");
            moved = 1;
            VP_ASSERT(b.offset == offset + 1, "C17.buf.get-octet.consumes-one");
            VP_WITNESS(rest == 1, "C17.buf.get-octet.last.reach");
        }
        VP_ASSERT(frame(dst, dst_old, sizeof dst, GUARD, GUARD + 1), "C17.buf.get-octet.nothing-outside");
        break;
    }
    VP_ASSERT(same(d, mem_old + GUARD + offset, moved, NOP), "C17.buf.source.next-octets-in-order");
    VP_ASSERT(b.used == used && b.size == size && b.data == mem + GUARD, "C17.buf.source.other-fields-fixed");
    VP_ASSERT(frame(mem, mem_old, sizeof mem, 0, 0), "C17.buf.source.memory-unchanged");

#elif defined(MODE_BUF_SINK)
    Sink snk;
    sink_to_buffer(&snk, &b);
    VP_ASSERT(snk.ext.getbuffer == NULL, "C17.buf.no-getbuffer-extension");
    ssize_t rc;
    size_t asked = n;
    switch (in.op % 3) {
    case 0:
        VP_ASSUME(n >= 1);
        rc = sink_put_chunk(&snk, opnd, n);
        if (n <= avail) {
            VP_ASSERT(rc == (ssize_t)n, "C17.buf.put.returns-n");
            VP_ASSERT(b.used == used + n, "C17.buf.put.appends-exactly-n");
            VP_WITNESS(n == SZ && used == 0, "C17.buf.put.full.reach");
        } else {
            VP_ASSERT(rc < 0, "C17.buf.put.no-space-is-error");
            VP_WITNESS(n == avail + 1 && avail >= 1, "C17.buf.put.no-space.reach");
        }
        break;
    case 1:
        VP_ASSUME(n >= 1);
        rc = sink_put_chunk_atmost(&snk, opnd, n);
        if (rc >= 0)
            VP_ASSERT(b.used == used + (size_t)rc, "C17.buf.put-atmost.returns-count-moved");
        if (n <= avail)
            VP_ASSERT(rc >= 0, "C17.buf.put-atmost.no-error-when-space");
        VP_WITNESS(rc == (ssize_t)n && n >= 2, "C17.buf.put-atmost.reach");
        break;
    default:
        asked = 1;
        VP_ASSUME(n >= 1);
        rc = sink_put_octet(&snk, opnd[0]);
        if (avail >= 1) {
            VP_ASSERT(rc == 1, "C17.buf.put-octet.one");
            VP_ASSERT(b.used == used + 1, "C17.buf.put-octet.appends-one");
            VP_WITNESS(avail == 1, "C17.buf.put-octet.last.reach");
        } else {
            VP_ASSERT(rc < 0, "C17.buf.put-octet.no-space-is-error");
        }
        break;
    }
    /* what reached the sink is a prefix of the caller's octets, appended after
     * the octets already there; nothing else changed */
    VP_ASSERT(b.used >= used && b.used <= size && b.used - used <= asked, "C17.buf.sink.never-more-than-asked");
    VP_ASSERT(same(mem + GUARD + used, opnd, b.used - used, NOP), "C17.buf.sink.appended-prefix-in-order");
    VP_ASSERT(frame(mem, mem_old, sizeof mem, GUARD + used, GUARD + b.used), "C17.buf.sink.nothing-else-written");
    VP_ASSERT(b.offset == offset && b.size == size && b.data == mem + GUARD, "C17.buf.sink.other-fields-fixed");
    VP_ASSERT(same(operand, in.operand, NOP, NOP), "C17.buf.sink.operand-unchanged");

#elif defined(MODE_TRIVIAL)
    ssize_t rc;
    const bool bad = (n == 0);
    switch (in.op % 3) {
    case 0:
        rc = source_get_chunk(&source_zero, d, n);
        if (bad) {
            VP_ASSERT(rc == -EINVAL, "C17.trivial.zero.invalid-n");
            VP_ASSERT(frame(dst, dst_old, sizeof dst, 0, 0), "C17.trivial.zero.invalid-n-untouched");
        } else {
            VP_ASSERT(rc == (ssize_t)n, "C17.trivial.zero.returns-n");
            bool z = true;
            for (size_t i = 0; i < NOP; ++i)
                if (i < n && d[i] != 0)
                    z = false;
            VP_ASSERT(z, "C17.trivial.zero.delivers-zero-octets");
            VP_ASSERT(frame(dst, dst_old, sizeof dst, GUARD, GUARD + n), "C17.trivial.zero.nothing-outside-n");
            VP_WITNESS(n == NOP, "C17.trivial.zero.reach");
        }
        break;
    case 1:
        rc = source_get_chunk(&source_empty, d, n);
        VP_ASSERT(rc < 0, "C17.trivial.empty.always-error");
        if (bad)
            VP_ASSERT(rc == -EINVAL, "C17.trivial.empty.invalid-n");
        VP_ASSERT(frame(dst, dst_old, sizeof dst, GUARD, GUARD + n), "C17.trivial.empty.nothing-outside-n");
        VP_WITNESS(n == 2, "C17.trivial.empty.reach");
        break;
    default:
        rc = sink_put_chunk(&sink_null, opnd, n);
        if (bad)
            VP_ASSERT(rc == -EINVAL, "C17.trivial.null.invalid-n");
        else
            VP_ASSERT(rc == (ssize_t)n, "C17.trivial.null.accepts-n");
        VP_ASSERT(same(operand, in.operand, NOP, NOP), "C17.trivial.null.operand-unchanged");
        VP_WITNESS(n == NOP, "C17.trivial.null.reach");
        break;
    }

#elif defined(MODE_CHUNKS_SOURCE)
    /* CBMC 6.11 mis-merges the variable `rc` of read_from_chunks (declared after
     * the label of its backward `goto next`) when iterations of that loop are
     * merged symbolically: it then returns an unconstrained value (spurious
     * counterexamples, never a false proof).  The chunk layout, `active`, the
     * operation and n are therefore ENUMERATED with concrete loops (symex keeps
     * the control flow of read_from_chunks constant); the octet values stay
     * symbolic.  All (SZC+1)^NCH layouts x active x n x {get, get-atmost}. */
    static unsigned char after[TOTAL + SZ];
    for (unsigned layout = 0; layout < LAYOUTS; ++layout)
    for (unsigned active = 0; active <= NCH; ++active)
    for (unsigned nn = 1; nn <= NOP; ++nn)
    for (unsigned op = 0; op < 2; ++op) {
        unsigned l = layout;
        for (unsigned c = 0; c < NCH; ++c) {
            const unsigned r = l % (SZC + 1); /* unread octets of chunk c */
            l /= SZC + 1;
            for (unsigned i = 0; i < SZC; ++i)
                cmem[c][i] = in.c[c].mem[i];
            cb[c].data = cmem[c];
            cb[c].size = SZC;
            /* odd chunks: read position at the start, even ones: at the end */
            cb[c].used = (c & 1u) ? r : SZC;
            cb[c].offset = (c & 1u) ? 0 : SZC - r;
        }
        static ByteChunks bc;
        static Source src;
        bc.chunks = NCH;
        bc.active = active;
        bc.chunk = cb;
        const size_t total = chunks_stream(&bc, model);
        for (unsigned i = 0; i < sizeof dst; ++i)
            dst[i] = dst_old[i];
        source_from_chunks(&src, &bc);
        VP_ASSERT(src.ext.getbuffer == NULL, "C17.buf.no-getbuffer-extension");
        ssize_t rc;
        size_t moved = 0; /* octets delivered by a successful call */
        if (op == 0) {
            rc = source_get_chunk(&src, d, nn);
            if (nn <= total) {
                VP_ASSERT(rc == (ssize_t)nn, "C17.chunks.get.returns-n");
                moved = nn;
                VP_WITNESS(nn == 3 && layout % (SZC + 1) == 1 && active == 0, "C17.chunks.get.across-boundary.reach");
            } else {
                VP_ASSERT(rc < 0, "C17.chunks.get.short-stream-is-error");
                VP_WITNESS(total >= 2, "C17.chunks.get.dry-after-progress.reach");
            }
        } else {
            rc = source_get_chunk_atmost(&src, d, nn);
            if (total == 0) {
                VP_ASSERT(rc < 0, "C17.chunks.get-atmost.empty-is-error");
            } else {
                VP_ASSERT(rc >= 0 && (size_t)rc <= nn, "C17.chunks.get-atmost.count-in-range");
                moved = (size_t)rc;
                VP_WITNESS((size_t)rc < nn && (size_t)rc < total, "C17.chunks.get-atmost.short-at-boundary.reach");
            }
        }
        VP_ASSERT(same(d, model, moved, NOP), "C17.chunks.next-octets-in-order");
        /* the source now holds exactly the rest of the stream */
        const size_t left = chunks_stream(&bc, after);
        VP_ASSERT(left <= total && total - left <= nn, "C17.chunks.never-more-than-asked");
        if (rc >= 0)
            VP_ASSERT(left == total - moved, "C17.chunks.consumed-exactly-count");
        VP_ASSERT(same(after, model + (total - left), left, TOTAL), "C17.chunks.rest-of-stream-intact");
        VP_ASSERT(frame(dst, dst_old, sizeof dst, GUARD, GUARD + nn), "C17.chunks.nothing-outside-n");
    }

#elif defined(MODE_PLUMB)
    /* source_from_buffer -> sink_to_buffer (source_from_chunks is exercised as a
     * driver in MODE_CHUNKS_SOURCE; see the note there) */
    VP_ASSUME(valid(&in.s, SZ));
    static unsigned char smem[SZ];
    for (unsigned i = 0; i < SZ; ++i)
        smem[i] = in.s.mem[i];
    ByteBuffer sb = { .data = smem, .size = in.s.size, .used = in.s.used, .offset = in.s.offset };
    const size_t total = (size_t)in.s.used - in.s.offset;
    const unsigned char *const stream = smem + in.s.offset;
    Source src;
    source_from_buffer(&src, &sb);
    Sink snk;
    sink_to_buffer(&snk, &b);
    VP_ASSUME(valid(&in.aux, SZ) && in.aux.offset < in.aux.used);
    for (unsigned i = 0; i < SZ + 2 * GUARD; ++i)
        auxmem[i] = aux_old[i] = (unsigned char)(0x50 + i);
    ByteBuffer aux = { .data = auxmem + GUARD, .size = in.aux.size, .used = in.aux.used, .offset = in.aux.offset };
    const size_t region = (size_t)in.aux.used - in.aux.offset;
    ssize_t rc;
#if PLUMB_OP == 0
    rc = sts_n(&src, &snk, n);
#elif PLUMB_OP == 1
    rc = sts_n_cbc(&src, &snk, n);
#elif PLUMB_OP == 2
    rc = sts_n_aux(&src, &snk, &aux, n);
#elif PLUMB_OP == 3
    rc = sts_drain(&src, &snk);
#elif PLUMB_OP == 4
    rc = sts_drain_cbc(&src, &snk);
#else
    rc = sts_drain_aux(&src, &snk, &aux);
#endif
    const size_t got = b.used - used;
    const size_t left = sb.used - sb.offset;
    VP_ASSERT(b.used >= used && b.used <= size, "C17.plumb.sink-bounded");
    VP_ASSERT(same(mem + GUARD + used, stream, got, SZ), "C17.plumb.sink-holds-prefix-of-stream");
    VP_ASSERT(frame(mem, mem_old, sizeof mem, GUARD + used, GUARD + b.used), "C17.plumb.sink-nothing-else-written");
    VP_ASSERT(sb.offset >= in.s.offset && sb.offset <= sb.used && sb.used == in.s.used, "C17.plumb.source-state-valid");
    VP_ASSERT(same(smem, in.s.mem, SZ, SZ), "C17.plumb.source-memory-unchanged");
#if PLUMB_OP <= 2
    VP_ASSERT(got <= n, "C17.plumb.counted.never-more-than-n");
    if (n <= total && n <= avail)
        VP_ASSERT(rc == (ssize_t)n, "C17.plumb.counted.succeeds");
    else
        VP_ASSERT(rc < 0, "C17.plumb.counted.failure-reported");
    if (rc >= 0) {
        VP_ASSERT(got == n && rc == (ssize_t)n, "C17.plumb.counted.exactly-n");
        VP_ASSERT(left == total - n, "C17.plumb.counted.source-advanced-exactly-n");
    }
    VP_WITNESS(rc == (ssize_t)n && n == SZ && region < n, "C17.plumb.counted.full.reach");
    VP_WITNESS(rc < 0 && n <= total && n > avail && got > 0, "C17.plumb.counted.sink-full.reach");
    VP_WITNESS(rc < 0 && n > total && n <= avail && got > 0, "C17.plumb.counted.source-ends-early.reach");
#else
    if (total <= avail)
        VP_ASSERT(got == total && left == 0, "C17.plumb.drain.everything-up-to-source-end");
    VP_WITNESS(got == total && total == SZ && region == 2, "C17.plumb.drain.full.reach");
    VP_WITNESS(total > avail && got == avail && avail > 0, "C17.plumb.drain.sink-full.reach");
#endif
    VP_ASSERT(frame(auxmem, aux_old, sizeof auxmem, GUARD, GUARD + in.aux.used), "C17.plumb.aux.nothing-outside-used-region");
#else
#error "no MODE"
#endif
}
VP_MAIN_EPILOGUE()
