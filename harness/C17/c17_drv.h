/* c17_drv.h -- scripted endpoint drivers for C17 (included by the C17 harnesses).
 *
 * A driver is a position in an octet array plus a *behaviour script*: one
 * entry per driver call, taken from struct vp_in, so the whole schedule is
 * one symbolic value and replays verbatim.  Per call the script chooses
 *   K_MOVE(count)  move min(count, asked) octets (count >= 1: 1, 2, k, rest),
 *   K_ZERO         return 0 (nothing moved; documented as "will be retried"),
 *   K_EINTR / K_EAGAIN   return -EINTR / -EAGAIN (nothing moved),
 *   K_HARD         return the instance's hard error (nothing moved).
 * At most STALL non-progress answers (0 / -EINTR / -EAGAIN) are given per
 * driver and run; once the budget is used up such an entry acts as K_MOVE
 * (otherwise the documented retry loops legitimately never end).
 *
 * The stub never assumes a call away.  It ASSERTS
 *   - C17.drv.asked-beyond-N: the code never asks for more octets than the
 *     operation was told to move (limit), counted from the driver's position;
 *   - C17.drv.no-call-after-error: no call after a hard error or after the
 *     source reported its end (-ENODATA), except `grace` calls where the
 *     harness says so (the error is sticky);
 *   - C17.drv.call-bound: no more calls than octets + STALL + 1, which every
 *     terminating correct caller satisfies because each call moves >= 1 octet,
 *     uses one unit of the stall budget, or reports an error.
 * After a breach the stub answers -EIO forever so that every loop ends (in
 * the solver and in the replay alike).
 */
#ifndef C17_DRV_H
#define C17_DRV_H

#include <vp.h>
#include <string.h>
#include <ufw/compat/errno.h>
#include <ufw/compat/ssize-t.h>
#include <ufw/endpoints.h>

#ifndef NMAX
#define NMAX 3
#endif
#ifndef STALL
#define STALL 2
#endif
/* largest number of octets a driver of this instance can be asked to move */
#ifndef MOVEMAX
#define MOVEMAX NMAX
#endif
#define SLEN (MOVEMAX + STALL + 1)
#define GUARD 2

enum { K_MOVE = 0, K_ZERO, K_EINTR, K_EAGAIN, K_HARD, K_KINDS };

struct c17_step {
    uint8_t kind;
    uint8_t count;
};

struct c17_drv {
    /* configuration */
    struct c17_step script[SLEN];
    unsigned char *mem; /* source: the stream; sink: the store */
    uint8_t cap;        /* source: stream length; sink: capacity (>= limit) */
    bool limited;
    uint8_t limit; /* octets the operation under test may move at most */
    int hard_err;
    uint8_t grace; /* calls tolerated after an error was reported */
    /* state (small types on purpose: every operation on them is bit-blasted
     * once per unrolled driver call; none can overflow: pos <= cap <= 255,
     * calls/step/after saturate long before 255 because of the breach rule
     * and the unwinding bounds) */
    uint8_t pos;
    uint8_t calls, step, stalls, after;
    bool hard_seen, dry_seen, neg_seen, breach, partial_seen, zero_seen,
        eintr_seen, eagain_seen;
};

static bool
c17_script_ok(const struct c17_step *s)
{
    bool ok = true;
    for (unsigned i = 0; i < SLEN; ++i)
        ok = ok && s[i].kind < K_KINDS && s[i].count >= 1;
    return ok;
}

static bool
c17_err_ok(int e)
{
    return e < 0 && e != -EINTR && e != -EAGAIN;
}

/* The two driver instances are file-scope objects addressed by name (no
 * pointer indirection in the solver's model: cheaper by a large factor). */
static struct c17_drv c17_sd; /* the source driver */
static struct c17_drv c17_kd; /* the sink driver */

#define C17_DEFINE_DRIVER(NAME, D, IS_SOURCE)                                 \
    static void NAME##_init(const struct c17_step *script,                    \
                            unsigned char *mem, size_t cap, bool limited,     \
                            size_t limit, int hard_err, unsigned grace)       \
    {                                                                         \
        const struct c17_drv zero = { .mem = NULL };                          \
        D = zero;                                                             \
        for (unsigned i = 0; i < SLEN; ++i)                                   \
            D.script[i] = script[i];                                          \
        D.mem = mem;                                                          \
        D.cap = (uint8_t)cap;                                                 \
        D.limited = limited;                                                  \
        D.limit = (uint8_t)limit;                                             \
        D.hard_err = hard_err;                                                \
        D.grace = (uint8_t)grace;                                             \
    }                                                                         \
    static ssize_t NAME##_breach(void)                                        \
    {                                                                         \
        D.breach = true;                                                      \
        D.neg_seen = true;                                                    \
        return -EIO;                                                          \
    }                                                                         \
    static ssize_t NAME##_call(size_t m, unsigned char *to,                   \
                               const unsigned char *from)                     \
    {                                                                         \
        if (D.calls < 255u)                                                   \
            D.calls++;                                                        \
        if (D.breach)                                                         \
            return -EIO;                                                      \
        if (D.hard_seen || D.dry_seen) {                                      \
            D.after++;                                                        \
            VP_ASSERT(D.after <= D.grace, "C17.drv.no-call-after-error");     \
            if (D.after > D.grace)                                            \
                return NAME##_breach();                                       \
            return D.hard_seen ? (ssize_t)D.hard_err : (ssize_t)-ENODATA;     \
        }                                                                     \
        if (D.limited && m > (size_t)(uint8_t)(D.limit - D.pos)) {                               \
            VP_ASSERT(false, "C17.drv.asked-beyond-N");                       \
            return NAME##_breach();                                           \
        }                                                                     \
        if (D.step >= SLEN) {                                                 \
            VP_ASSERT(false, "C17.drv.call-bound");                           \
            return NAME##_breach();                                           \
        }                                                                     \
        const struct c17_step s = D.script[D.step++];                         \
        unsigned kind = s.kind;                                               \
        if (kind == K_ZERO || kind == K_EINTR || kind == K_EAGAIN) {          \
            if (D.stalls < STALL) {                                           \
                D.stalls++;                                                   \
                if (kind == K_ZERO) {                                         \
                    D.zero_seen = true;                                       \
                    return 0;                                                 \
                }                                                             \
                D.neg_seen = true;                                            \
                if (kind == K_EINTR) {                                        \
                    D.eintr_seen = true;                                      \
                    return -EINTR;                                            \
                }                                                             \
                D.eagain_seen = true;                                         \
                return -EAGAIN;                                               \
            }                                                                 \
            kind = K_MOVE;                                                    \
        }                                                                     \
        if (kind == K_HARD) {                                                 \
            D.hard_seen = true;                                               \
            D.neg_seen = true;                                                \
            return (ssize_t)D.hard_err;                                       \
        }                                                                     \
        if (IS_SOURCE && D.pos == D.cap) {                                    \
            D.dry_seen = true;                                                \
            D.neg_seen = true;                                                \
            return -ENODATA;                                                  \
        }                                                                     \
        uint8_t r = s.count;                                                  \
        if (r > m)                                                            \
            r = (uint8_t)m;                                                   \
        if (r > (uint8_t)(D.cap - D.pos))                                     \
            r = (uint8_t)(D.cap - D.pos);                                     \
        for (uint8_t i = 0; i < r; ++i) {                                     \
            if (IS_SOURCE)                                                    \
                to[i] = D.mem[(uint8_t)(D.pos + i)];                          \
            else                                                              \
                D.mem[(uint8_t)(D.pos + i)] = from[i];                        \
        }                                                                     \
        D.pos = (uint8_t)(D.pos + r);                                         \
        if (r < m)                                                            \
            D.partial_seen = true;                                            \
        return (ssize_t)r;                                                    \
    }

C17_DEFINE_DRIVER(c17_src, c17_sd, true)
C17_DEFINE_DRIVER(c17_snk, c17_kd, false)

static int
c17_src_octet(void *drv, void *data)
{
    (void)drv;
    return (int)c17_src_call(1u, data, NULL);
}

static ssize_t
c17_src_chunk(void *drv, void *data, size_t n)
{
    (void)drv;
    return c17_src_call(n, data, NULL);
}

static int
c17_snk_octet(void *drv, unsigned char c)
{
    (void)drv;
    return (int)c17_snk_call(1u, NULL, &c);
}

static ssize_t
c17_snk_chunk(void *drv, const void *data, size_t n)
{
    (void)drv;
    return c17_snk_call(n, NULL, data);
}

static void
c17_source(Source *s, bool octet)
{
    if (octet)
        octet_source_init(s, c17_src_octet, &c17_sd);
    else
        chunk_source_init(s, c17_src_chunk, &c17_sd);
}

static void
c17_sink(Sink *s, bool octet)
{
    if (octet)
        octet_sink_init(s, c17_snk_octet, &c17_kd);
    else
        chunk_sink_init(s, c17_snk_chunk, &c17_kd);
}

/* a[0..n) == b[0..n), n <= max (max is the compile-time loop bound) */
static bool
c17_same(const unsigned char *a, const unsigned char *b, size_t n, size_t max)
{
    bool same = true;
    for (size_t i = 0; i < max; ++i)
        if (i < n && a[i] != b[i])
            same = false;
    return same;
}

/* arr[0..len) equals old[0..len) outside [lo, hi) */
static bool
c17_frame(const unsigned char *arr, const unsigned char *old, size_t len,
          size_t lo, size_t hi)
{
    bool same = true;
    for (size_t i = 0; i < len; ++i)
        if ((i < lo || i >= hi) && arr[i] != old[i])
            same = false;
    return same;
}

#endif /* C17_DRV_H */
