/* c17_drv.h -- scripted endpoint drivers for C17 (included by the C17 harnesses).
 *
 * A driver is a position in an octet array plus a *behaviour script*: one
 * entry per driver call, taken from struct vp_in, so the whole schedule is
 * one symbolic value and replays verbatim.  Per call the script chooses
 *   K_MOVE(count)  move min(count, asked) octets (count >= 1: 1, 2, k, rest),
 *   K_ZERO         return 0 (nothing moved; documented as "will be retried"),
 *   K_EINTR / K_EAGAIN   return -EINTR / -EAGAIN (nothing moved),
 *   K_HARD         return the instance's hard error (nothing moved).
 * At most STALL non-progress answers (0 / -EINTR / -EAGAIN) are given per
 * driver and run; once the budget is used up such an entry acts as K_MOVE
 * (otherwise the documented retry loops legitimately never end).
 *
 * The stub never assumes a call away.  It ASSERTS
 *   - C17.drv.asked-beyond-N: the code never asks for more octets than the
 *     operation was told to move (limit), counted from the driver's position;
 *   - C17.drv.no-call-after-error: no call after a hard error or after the
 *     source reported its end (-ENODATA), except `grace` calls where the
 *     harness says so (the error is sticky);
 *   - C17.drv.call-bound: no more calls than octets + STALL + 1, which every
 *     terminating correct caller satisfies because each call moves >= 1 octet,
 *     uses one unit of the stall budget, or reports an error.
 * After a breach the stub answers -EIO forever so that every loop ends (in
 * the solver and in the replay alike).
 */
#ifndef C17_DRV_H
#define C17_DRV_H

#include <vp.h>
#include <string.h>
#include <ufw/compat/errno.h>
#include <ufw/compat/ssize-t.h>
#include <ufw/endpoints.h>

#ifndef NMAX
#define NMAX 3
#endif
#ifndef STALL
#define STALL 2
#endif
/* largest number of octets a driver of this instance can be asked to move */
#ifndef MOVEMAX
#define MOVEMAX NMAX
#endif
#define SLEN (MOVEMAX + STALL + 1)
#define GUARD 2

enum { K_MOVE = 0, K_ZERO, K_EINTR, K_EAGAIN, K_HARD, K_KINDS };

struct c17_step {
    uint8_t kind;
    uint8_t count;
};

struct c17_drv {
    /* configuration */
    struct c17_step script[SLEN];
    unsigned char *mem; /* source: the stream; sink: the store */
    size_t cap;         /* source: stream length; sink: capacity (>= limit) */
    bool limited;
    size_t limit; /* octets the operation under test may move at most */
    int hard_err;
    unsigned grace; /* calls tolerated after an error was reported */
    /* state */
    size_t pos;
    unsigned calls, step, stalls, after;
    bool hard_seen, dry_seen, neg_seen, breach, partial_seen, zero_seen,
        eintr_seen, eagain_seen;
};

static bool
c17_script_ok(const struct c17_step *s)
{
    bool ok = true;
    for (unsigned i = 0; i < SLEN; ++i)
        ok = ok && s[i].kind < K_KINDS && s[i].count >= 1;
    return ok;
}

static bool
c17_err_ok(int e)
{
    return e < 0 && e != -EINTR && e != -EAGAIN;
}

static void
c17_drv_init(struct c17_drv *d, const struct c17_step *script,
             unsigned char *mem, size_t cap, bool limited, size_t limit,
             int hard_err, unsigned grace)
{
    const struct c17_drv zero = { .mem = NULL };
    *d = zero;
    for (unsigned i = 0; i < SLEN; ++i)
        d->script[i] = script[i];
    d->mem = mem;
    d->cap = cap;
    d->limited = limited;
    d->limit = limit;
    d->hard_err = hard_err;
    d->grace = grace;
}

static ssize_t
c17_breach(struct c17_drv *d)
{
    d->breach = true;
    d->neg_seen = true;
    return -EIO;
}

static ssize_t
c17_call(struct c17_drv *d, size_t m, bool is_source, unsigned char *to,
         const unsigned char *from)
{
    d->calls++;
    if (d->breach)
        return -EIO;
    if (d->hard_seen || d->dry_seen) {
        d->after++;
        VP_ASSERT(d->after <= d->grace, "C17.drv.no-call-after-error");
        if (d->after > d->grace)
            return c17_breach(d);
        return d->hard_seen ? (ssize_t)d->hard_err : (ssize_t)-ENODATA;
    }
    if (d->limited && m > d->limit - d->pos) {
        VP_ASSERT(false, "C17.drv.asked-beyond-N");
        return c17_breach(d);
    }
    if (d->step >= SLEN) {
        VP_ASSERT(false, "C17.drv.call-bound");
        return c17_breach(d);
    }
    const struct c17_step s = d->script[d->step++];
    unsigned kind = s.kind;
    if (kind == K_ZERO || kind == K_EINTR || kind == K_EAGAIN) {
        if (d->stalls < STALL) {
            d->stalls++;
            if (kind == K_ZERO) {
                d->zero_seen = true;
                return 0;
            }
            d->neg_seen = true;
            if (kind == K_EINTR) {
                d->eintr_seen = true;
                return -EINTR;
            }
            d->eagain_seen = true;
            return -EAGAIN;
        }
        kind = K_MOVE;
    }
    if (kind == K_HARD) {
        d->hard_seen = true;
        d->neg_seen = true;
        return (ssize_t)d->hard_err;
    }
    if (is_source && d->pos == d->cap) {
        d->dry_seen = true;
        d->neg_seen = true;
        return -ENODATA;
    }
    size_t r = s.count;
    if (r > m)
        r = m;
    if (r > d->cap - d->pos)
        r = d->cap - d->pos;
    for (size_t i = 0; i < r; ++i) {
        if (is_source)
            to[i] = d->mem[d->pos + i];
        else
            d->mem[d->pos + i] = from[i];
    }
    d->pos += r;
    if (r < m)
        d->partial_seen = true;
    return (ssize_t)r;
}

static int
c17_src_octet(void *drv, void *data)
{
    return (int)c17_call(drv, 1u, true, data, NULL);
}

static ssize_t
c17_src_chunk(void *drv, void *data, size_t n)
{
    return c17_call(drv, n, true, data, NULL);
}

static int
c17_snk_octet(void *drv, unsigned char c)
{
    return (int)c17_call(drv, 1u, false, NULL, &c);
}

static ssize_t
c17_snk_chunk(void *drv, const void *data, size_t n)
{
    return c17_call(drv, n, false, NULL, data);
}

static void
c17_source(Source *s, struct c17_drv *d, bool octet)
{
    if (octet)
        octet_source_init(s, c17_src_octet, d);
    else
        chunk_source_init(s, c17_src_chunk, d);
}

static void
c17_sink(Sink *s, struct c17_drv *d, bool octet)
{
    if (octet)
        octet_sink_init(s, c17_snk_octet, d);
    else
        chunk_sink_init(s, c17_snk_chunk, d);
}

/* a[0..n) == b[0..n), n <= max (max is the compile-time loop bound) */
static bool
c17_same(const unsigned char *a, const unsigned char *b, size_t n, size_t max)
{
    bool same = true;
    for (size_t i = 0; i < max; ++i)
        if (i < n && a[i] != b[i])
            same = false;
    return same;
}

/* arr[0..len) equals old[0..len) outside [lo, hi) */
static bool
c17_frame(const unsigned char *arr, const unsigned char *old, size_t len,
          size_t lo, size_t hi)
{
    bool same = true;
    for (size_t i = 0; i < len; ++i)
        if ((i < lo || i >= hi) && arr[i] != old[i])
            same = false;
    return same;
}

#endif /* C17_DRV_H */
