/* C04: table initialisation accepts exactly the well-formed tables.
 * Unit: src/registers/core.c (#include'd), src/registers/internal.h.
 * Fully symbolic description (area count, bases, sizes, flags, callbacks,
 * backing kind; register count, types, addresses, constraints, defaults),
 * arbitrary prior memory contents; the real register_init runs on it. */
#include "../regs/regs_common.h"

struct vp_in {
    struct vp_table t;
    RegisterAtom mem[NAREA][AWORDS];
    uint8_t null_variant; /* 0: regular, 1: t NULL, 2: area NULL, 3: entry NULL */
    uint16_t flags;       /* MODE_UNINIT: arbitrary table flags (INITIALISED cleared) */
    uint8_t areas_field;  /* MODE_UNINIT: arbitrary stale counts */
    uint8_t entries_field;
};
VP_DECLARE_INPUT();

static int noop_cb(RegisterTable *t, RegisterHandle h, void *arg)
{
    (void)t; (void)h; (void)arg;
    return 0;
}

static void expect_uninitialised(void)
{
    RegisterValue v = vp_value(REG_TYPE_UINT16, 0);
    RegisterAtom w[2] = { 0, 0 };
    VP_ASSERT(register_get(&vp_t, 0, &v).code == REG_ACCESS_UNINITIALISED, "C04.failed.get-uninitialised");
    VP_ASSERT(register_set(&vp_t, 0, v).code == REG_ACCESS_UNINITIALISED, "C04.failed.set-uninitialised");
    VP_ASSERT(register_set_unsafe(&vp_t, 0, v).code == REG_ACCESS_UNINITIALISED,
              "C04.failed.set-unsafe-uninitialised");
    VP_ASSERT(register_bit_set(&vp_t, 0, v).code == REG_ACCESS_UNINITIALISED, "C04.failed.bit-set-uninitialised");
    VP_ASSERT(register_bit_clear(&vp_t, 0, v).code == REG_ACCESS_UNINITIALISED,
              "C04.failed.bit-clear-uninitialised");
    VP_ASSERT(register_block_read(&vp_t, 0, 1, w).code == REG_ACCESS_UNINITIALISED,
              "C04.failed.block-read-uninitialised");
    VP_ASSERT(register_block_write(&vp_t, 0, 1, w).code == REG_ACCESS_UNINITIALISED,
              "C04.failed.block-write-uninitialised");
    VP_ASSERT(register_foreach_in(&vp_t, 0, 1, noop_cb, NULL).code == REG_ACCESS_UNINITIALISED,
              "C04.failed.foreach-uninitialised");
    VP_ASSERT(register_sanitise(&vp_t).code == REG_ACCESS_UNINITIALISED, "C04.failed.sanitise-uninitialised");
}

void harness(void)
{
    VP_INPUT(in);
#ifdef FIX_NA
    /* the driver enumerates the number of areas and registers (one query each) */
    in.t.nareas = FIX_NA;
    in.t.nentries = FIX_NE;
#endif
    const struct vp_table *d = &in.t;
    VP_ASSUME(vp_desc_wellformed(d));
    for (unsigned i = 0; i < NAREA; ++i) {
        VP_ASSUME(d->a[i].base <= VP_ADDR_LIMIT);
        VP_ASSUME(d->a[i].has_read == 1);
    }
    for (unsigned i = 0; i < NREG; ++i)
        VP_ASSUME(d->e[i].address <= VP_ADDR_LIMIT);
    VP_ASSUME(in.null_variant <= 3);
    vp_build(d);
    for (unsigned a = 0; a < NAREA; ++a)
        for (unsigned w = 0; w < AWORDS; ++w)
            vp_mem[a][w] = in.mem[a][w];

#ifdef MODE_UNINIT
    /* A table that register_init refused (or never saw) has REG_TF_INITIALISED
     * clear; whatever else it holds, every operation must say so and touch
     * nothing. (The init instances assert that the flag is clear on failure.) */
    vp_t.flags = in.flags & (uint16_t)~REG_TF_INITIALISED;
    vp_t.areas = in.areas_field;
    vp_t.entries = in.entries_field;
    struct vp_snapshot before0;
    vp_snap(&before0);
    expect_uninitialised();
    VP_ASSERT(vp_mem_equal(&before0), "C04.uninitialised.nothing-touched");
    VP_WITNESS(vp_t.flags != 0 && in.entries_field > NREG, "C04.uninitialised.reach");
    return;
#elif defined(MODE_NULL)
    VP_ASSUME(in.null_variant >= 1);
    RegisterInit rn;
    if (in.null_variant == 1) {
        rn = register_init(NULL);
    } else {
        if (in.null_variant == 2)
            vp_t.area = NULL;
        else
            vp_t.entry = NULL;
        rn = register_init(&vp_t);
    }
    VP_ASSERT(rn.code != REG_INIT_SUCCESS, "C04.null.refused");
    VP_ASSERT(rn.code == REG_INIT_TABLE_INVALID, "C04.null.table-invalid");
    VP_WITNESS(in.null_variant == 3, "C04.null.reach");
    return;
#else
    VP_ASSUME(in.null_variant == 0);

    /* the table may have been used before: whatever its flags say (a stale
     * INITIALISED mark from an earlier successful initialisation included),
     * only the byte-order flag is an input to register_init */
    vp_t.flags = (uint16_t)((in.flags & (uint16_t)~REG_TF_BIG_ENDIAN) | (d->bigendian ? REG_TF_BIG_ENDIAN : 0));
    RegisterInit ri = register_init(&vp_t);

    /* ---------------- reference: rule groups in the order the property lists them */
    bool g_noarea = (d->nareas == 0);
    /* area layout */
    bool a_ord = false, a_ovl = false;
    unsigned a_ord_i = 0, a_ovl_i = 0;
    for (unsigned i = 1; i < NAREA; ++i) {
        if (i >= d->nareas)
            break;
        if (d->a[i].base < d->a[i - 1].base) {
            if (!a_ord) { a_ord = true; a_ord_i = i; }
        } else if ((uint64_t)d->a[i].base < (uint64_t)d->a[i - 1].base + d->a[i - 1].size) {
            if (!a_ovl) { a_ovl = true; a_ovl_i = i; }
        }
    }
    /* register layout */
    bool e_ord = false, e_ovl = false;
    unsigned e_ord_i = 0, e_ovl_i = 0;
    for (unsigned i = 1; i < NREG; ++i) {
        if (i >= d->nentries)
            break;
        if (d->e[i].address < d->e[i - 1].address) {
            if (!e_ord) { e_ord = true; e_ord_i = i; }
        } else if ((uint64_t)d->e[i].address < (uint64_t)d->e[i - 1].address + ref_size(d->e[i - 1].type)) {
            if (!e_ovl) { e_ovl = true; e_ovl_i = i; }
        }
    }
    /* placement and defaults (only meaningful once the layout groups hold) */
    bool hole = false, bad = false;
    unsigned hole_i = 0, bad_i = 0;
    for (unsigned i = 0; i < NREG; ++i) {
        if (i >= d->nentries)
            break;
        int ai = ref_area_of(d, d->e[i].address);
        bool inside = ai >= 0 && (uint64_t)d->e[i].address + ref_size(d->e[i].type) <=
                                     (uint64_t)d->a[ai].base + d->a[ai].size;
        if (!inside) {
            if (!hole) { hole = true; hole_i = i; }
        } else if (ref_area_loads_defaults(&d->a[ai]) &&
                   !ref_value_ok(d, &d->e[i], d->e[i].def & ref_mask(d->e[i].type), true)) {
            if (!bad) { bad = true; bad_i = i; }
        }
    }
    const bool wellformed = !g_noarea && !a_ord && !a_ovl && !e_ord && !e_ovl && !hole && !bad;

    VP_ASSERT((ri.code == REG_INIT_SUCCESS) == wellformed, "C04.succeeds-iff-wellformed");

    if (ri.code != REG_INIT_SUCCESS) {
        /* first violated rule (group order as in the property); inside a group
         * with two different faults at different indices both "lowest index
         * first" and "first-listed rule first" are accepted */
        bool ok;
        if (g_noarea) {
            ok = (ri.code == REG_INIT_NO_AREAS);
        } else if (a_ord || a_ovl) {
            bool ok_ord = a_ord && ri.code == REG_INIT_AREA_INVALID_ORDER && ri.pos.area == a_ord_i;
            bool ok_ovl = a_ovl && ri.code == REG_INIT_AREA_ADDRESS_OVERLAP && ri.pos.area == a_ovl_i &&
                          (!a_ord || a_ovl_i < a_ord_i);
            ok = ok_ord || ok_ovl;
        } else if (e_ord || e_ovl) {
            bool ok_ord = e_ord && ri.code == REG_INIT_ENTRY_INVALID_ORDER && ri.pos.entry == e_ord_i;
            bool ok_ovl = e_ovl && ri.code == REG_INIT_ENTRY_ADDRESS_OVERLAP && ri.pos.entry == e_ovl_i &&
                          (!e_ord || e_ovl_i < e_ord_i);
            ok = ok_ord || ok_ovl;
        } else {
            bool ok_hole = hole && ri.code == REG_INIT_ENTRY_IN_MEMORY_HOLE && ri.pos.entry == hole_i;
            bool ok_bad = bad && ri.code == REG_INIT_ENTRY_INVALID_DEFAULT && ri.pos.entry == bad_i &&
                          (!hole || bad_i < hole_i);
            ok = ok_hole || ok_bad;
        }
        VP_ASSERT(ok, "C04.failure.first-violated-rule-and-index");
        /* => every operation answers UNINITIALISED: decided in the c04_uninit instance */
        VP_ASSERT(!BIT_ISSET(vp_t.flags, REG_TF_INITIALISED), "C04.failure.not-initialised");
#if FIX_NA != 1 || FIX_NE >= 1
        VP_WITNESS((in.flags & REG_TF_INITIALISED) != 0, "C04.failure.re-initialisation-of-a-used-table.reach");
#endif
#if FIX_NA >= 2
        VP_WITNESS(ri.code == REG_INIT_AREA_ADDRESS_OVERLAP && ri.pos.area == FIX_NA - 1, "C04.area-overlap.reach");
        VP_WITNESS(ri.code == REG_INIT_AREA_INVALID_ORDER, "C04.area-order.reach");
#endif
#if FIX_NE >= 2 && FIX_NA >= 1
        VP_WITNESS(ri.code == REG_INIT_ENTRY_ADDRESS_OVERLAP && ri.pos.entry == FIX_NE - 1, "C04.entry-overlap.reach");
        VP_WITNESS(ri.code == REG_INIT_ENTRY_INVALID_ORDER, "C04.entry-order.reach");
        VP_WITNESS(ri.code == REG_INIT_ENTRY_IN_MEMORY_HOLE && ri.pos.entry >= 1 &&
                       ref_area_of(d, d->e[ri.pos.entry].address) >= 0,
                   "C04.entry-straddles-area-end.reach");
        VP_WITNESS(ri.code == REG_INIT_ENTRY_INVALID_DEFAULT && ri.pos.entry >= 1 &&
                       d->e[ri.pos.entry].check == REGV_TYPE_RANGE,
                   "C04.bad-default.reach");
#endif
#if FIX_NE == 1 && FIX_NA >= 1
        VP_WITNESS(ri.code == REG_INIT_ENTRY_IN_MEMORY_HOLE && ref_area_of(d, d->e[0].address) < 0,
                   "C04.entry-in-hole.reach");
        VP_WITNESS(ri.code == REG_INIT_ENTRY_INVALID_DEFAULT && d->e[0].type == REG_TYPE_FLOAT32,
                   "C04.bad-float-default.reach");
#endif
#if FIX_NA == 0
        VP_WITNESS(ri.code == REG_INIT_NO_AREAS, "C04.no-areas.reach");
#endif
        return;
    }

    /* ---------------- success: resulting state */
    VP_ASSERT(BIT_ISSET(vp_t.flags, REG_TF_INITIALISED), "C04.success.initialised");
    VP_ASSERT(!BIT_ISSET(vp_t.flags, REG_TF_DURING_INIT), "C04.success.init-phase-over");
    VP_ASSERT(BIT_ISSET(vp_t.flags, REG_TF_BIG_ENDIAN) == (d->bigendian != 0), "C04.success.byte-order-kept");
    VP_ASSERT(vp_t.areas == d->nareas && vp_t.entries == d->nentries, "C04.success.counts");
    for (unsigned i = 0; i < NREG; ++i) {
        if (i >= d->nentries)
            break;
        const struct vp_entry *e = &d->e[i];
        int ai = ref_area_of(d, e->address);
        VP_ASSERT(vp_entries[i].area == &vp_areas[ai], "C04.success.register-linked-to-its-area");
        VP_ASSERT(vp_entries[i].offset == e->address - d->a[ai].base, "C04.success.register-offset");
        if (ref_area_loads_defaults(&d->a[ai])) {
            RegisterValue g;
            RegisterAccess rg = register_get(&vp_t, i, &g);
            VP_ASSERT(rg.code == REG_ACCESS_SUCCESS && g.type == (RegisterType)e->type &&
                          vp_value_bits(g) == (e->def & ref_mask(e->type)),
                      "C04.success.default-reads-back");
        }
    }
    /* every other word of memory-backed areas is zero */
    for (unsigned a = 0; a < NAREA; ++a) {
        if (a >= d->nareas)
            break;
        for (unsigned w = 0; w < AWORDS; ++w) {
            if (w >= d->a[a].size)
                break;
            uint32_t ga = d->a[a].base + w;
            bool covered = false;
            for (unsigned j = 0; j < NREG; ++j)
                if (j < d->nentries && (uint32_t)(ga - d->e[j].address) < ref_size(d->e[j].type) &&
                    ref_area_loads_defaults(&d->a[a]))
                    covered = true;
            if (!covered) {
                if (!d->a[a].custom)
                    VP_ASSERT(vp_mem[a][w] == 0, "C04.success.other-memory-words-zero");
                else
                    VP_ASSERT(vp_mem[a][w] == in.mem[a][w], "C04.success.callback-area-words-untouched");
            }
        }
    }
    /* each area records exactly the contiguous run of registers located in it */
    for (unsigned a = 0; a < NAREA; ++a) {
        if (a >= d->nareas)
            break;
        unsigned cnt, first = ref_area_first(d, a, &cnt);
        VP_ASSERT(vp_areas[a].entry.count == cnt, "C04.success.area-register-count");
        if (cnt > 0)
            VP_ASSERT(vp_areas[a].entry.first == first && vp_areas[a].entry.last == first + cnt - 1,
                      "C04.success.area-register-run");
    }
#if FIX_NA >= 2 && FIX_NE >= 2
    VP_WITNESS(vp_areas[FIX_NA - 1].entry.count >= 2 && vp_areas[0].entry.count == 0,
               "C04.success.empty-first-area.reach");
    VP_WITNESS(d->a[1].base == d->a[0].base + d->a[0].size && d->a[0].size > 0 && vp_areas[0].entry.count >= 1 &&
                   vp_areas[1].entry.count >= 1,
               "C04.success.adjacent-areas.reach");
#endif
#if FIX_NA >= 1 && FIX_NE >= 1
    VP_WITNESS((d->a[0].flags & REG_AF_SKIP_DEFAULTS) && vp_areas[0].entry.count >= 1 && !d->a[0].custom,
               "C04.success.skip-defaults.reach");
    VP_WITNESS(d->e[0].check == REGV_TYPE_FAIL && ref_area_loads_defaults(&d->a[0]) &&
                   ref_area_of(d, d->e[0].address) == 0,
               "C04.success.fail-constraint-default-loaded.reach");
    VP_WITNESS(!d->a[0].has_write && vp_areas[0].entry.count >= 1, "C04.success.no-write-callback-area.reach");
    VP_WITNESS(d->a[0].custom && ref_area_loads_defaults(&d->a[0]) && vp_areas[0].entry.count == FIX_NE && d->bigendian,
               "C04.success.custom-area-bigendian.reach");
#endif
#if FIX_NA >= 1 && FIX_NE == 0
    VP_WITNESS(d->nentries == 0 && d->nareas >= 1, "C04.success.no-registers.reach");
#endif
#endif /* !MODE_NULL && !MODE_UNINIT */
}
VP_MAIN_EPILOGUE()
