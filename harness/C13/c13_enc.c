/* C13 (encoder content part): the four *_to_sink encoders write
 *     encoding(len) || exactly the designated octets
 * into a real sink, for every ByteBuffer state / chunk-list shape (incl. empty
 * chunks, consumed leading chunks) / sink capacity and fill, payload <= NP.
 *
 * Units: src/length-prefix.c, src/variable-length-integer.c, src/byte-buffer.c,
 * src/endpoints/core.c, src/endpoints/buffer.c (linked unchanged).
 * Sinks: SINK_OCTET undefined: the library's buffer sink (sink_to_buffer), a
 * chunk sink that takes a put completely or fails with -ENOMEM;
 * SINK_OCTET defined: an octet sink (one octet per driver call, through
 * sink_adapt) writing into the same wire array.
 * The full length range and the prefix-object encoders are in c13_range.c. */
#include <vp.h>
#include <string.h>
#include <ufw/compat/errno.h>
#include <ufw/byte-buffer.h>
#include <ufw/endpoints.h>
#include <ufw/length-prefix.h>
#include "c13_ref.h"

#ifndef NP
#define NP 4
#endif
#define NCH 3
#define SZ (NP + 2)                /* memory behind the ByteBuffer */
#define CS ((SZ + NCH - 1) / NCH)  /* memory behind each chunk */
#define MAXT (NCH * CS)            /* >= SZ: longest designated payload */
#define GUARD 2
#define WSZ (4 + MAXT + 1)         /* prefix <= 4 octets for lengths < 128, one pre-filled octet */

#define EP_MEMORY 0
#define EP_BUFFER 1
#define EP_BUFFER_N 2
#define EP_CHUNKS 3
#ifndef EP
#error "EP is a compile-time parameter"
#endif

struct vp_in {
    uint8_t kind;
    uint8_t n;
    uint8_t mem[SZ];
    uint8_t bsize, bused, boff;
    uint8_t cmem[NCH][CS];
    uint8_t csize[NCH], cused[NCH], coff[NCH];
    uint8_t nchunks, active;
    uint8_t wire[GUARD + WSZ + GUARD];
    uint8_t cap, pre;
};
VP_DECLARE_INPUT();

#ifdef SINK_OCTET
static struct {
    uint8_t *w;
    size_t cap, used;
} ost;
static int oct_put(void *drv, unsigned char c)
{
    (void)drv;
    if (ost.used >= ost.cap)
        return -ENOMEM;
    ost.w[ost.used++] = c;
    return 1;
}
#endif

void harness(void)
{
    VP_INPUT(in);
#ifdef KIND
    in.kind = KIND;
#endif
    VP_ASSUME(in.kind < C13_NKINDS);
    const LengthPrefixKind k = (LengthPrefixKind)in.kind;

    /* sources */
    uint8_t mem[SZ], cmem[NCH][CS];
    for (unsigned i = 0; i < SZ; ++i)
        mem[i] = in.mem[i];
    for (unsigned c = 0; c < NCH; ++c)
        for (unsigned i = 0; i < CS; ++i)
            cmem[c][i] = in.cmem[c][i];
    VP_ASSUME(in.bsize >= 1 && in.bsize <= SZ && in.boff <= in.bused && in.bused <= in.bsize);
    ByteBuffer b = { .data = mem, .size = in.bsize, .used = in.bused, .offset = in.boff };
    ByteBuffer ch[NCH];
    VP_ASSUME(in.nchunks <= NCH && in.active <= in.nchunks);
    for (unsigned i = 0; i < NCH; ++i) {
        VP_ASSUME(in.csize[i] >= 1 && in.csize[i] <= CS && in.coff[i] <= in.cused[i] &&
                  in.cused[i] <= in.csize[i]);
        if (i < in.active)
            VP_ASSUME(in.coff[i] == in.cused[i]); /* chunks before `active` are consumed */
        ch[i].data = cmem[i];
        ch[i].size = in.csize[i];
        ch[i].used = in.cused[i];
        ch[i].offset = in.coff[i];
    }
    ByteChunks oc = { .chunks = in.nchunks, .active = in.active, .chunk = ch };

    /* sink */
    uint8_t wire[GUARD + WSZ + GUARD];
    for (unsigned i = 0; i < sizeof wire; ++i)
        wire[i] = in.wire[i];
    VP_ASSUME(in.pre <= 1 && in.pre <= in.cap && in.cap >= 1 && in.cap <= WSZ);
    Sink sink;
#ifdef SINK_OCTET
    ost.w = wire + GUARD;
    ost.cap = in.cap;
    ost.used = in.pre;
    octet_sink_init(&sink, oct_put, NULL);
#else
    ByteBuffer sinkb = { .data = wire + GUARD, .size = in.cap, .used = in.pre, .offset = 0 };
    sink_to_buffer(&sink, &sinkb);
#endif

    /* the designated octets, from the property text */
    uint8_t des[MAXT];
    size_t n = 0;
    ssize_t rc;
#if EP == EP_MEMORY
    VP_ASSUME(in.n <= SZ);
    /* the memory block ends exactly after n octets */
    uint8_t *buf = mem + (SZ - in.n);
    n = in.n;
    for (size_t i = 0; i < SZ; ++i)
        if (i < n)
            des[i] = buf[i];
    rc = flenp_memory_to_sink(k, &sink, buf, n);
#elif EP == EP_BUFFER || EP == EP_BUFFER_N
    n = (size_t)in.bused - in.boff;
#if EP == EP_BUFFER_N
    VP_ASSUME(in.n <= n); /* "its first n unread octets" */
    n = in.n;
#endif
    for (size_t i = 0; i < SZ; ++i)
        if (i < n)
            des[i] = mem[in.boff + i];
#if EP == EP_BUFFER_N
    rc = flenp_buffer_to_sink_n(k, &sink, &b, n);
#else
    rc = flenp_buffer_to_sink(k, &sink, &b);
#endif
#elif EP == EP_CHUNKS
    for (unsigned c = 0; c < NCH; ++c)
        if (c >= in.active && c < in.nchunks)
            for (unsigned i = 0; i < CS; ++i)
                if (i >= in.coff[c] && i < in.cused[c])
                    des[n++] = cmem[c][i];
    rc = flenp_chunks_to_sink(k, &sink, &oc);
#endif

    uint8_t ref[C13_PREFIX_MAX];
    const unsigned plen = c13_ref_prefix(in.kind, n, ref);
    const size_t total = plen + n;
    const size_t room = (size_t)in.cap - in.pre;
#ifdef SINK_OCTET
    const size_t used = ost.used;
#else
    const size_t used = sinkb.used;
#endif
    uint8_t *w = wire + GUARD;
    bool done = false;

    if (n >= 1) { /* every n here is below every kind's maximum */
        if (room >= total) {
            done = true;
            VP_ASSERT(rc == (ssize_t)total, "C13.enc.reports-total");
            VP_ASSERT(used == in.pre + total, "C13.enc.sink-received-total-octets");
            for (unsigned i = 0; i < 4; ++i)
                if (i < plen)
                    VP_ASSERT(w[in.pre + i] == ref[i], "C13.enc.length-in-kind-encoding");
            for (unsigned i = 0; i < MAXT; ++i)
                if (i < n)
                    VP_ASSERT(w[in.pre + plen + i] == des[i], "C13.enc.exactly-the-designated-octets");
        } else {
            VP_ASSERT(rc != (ssize_t)total, "C13.enc.no-total-reported-when-sink-too-small");
            VP_ASSERT(used <= in.cap, "C13.enc.sink-fill-within-capacity");
        }
    }
    /* frame: sink memory outside the free region; what was not overwritten */
    for (unsigned i = 0; i < GUARD + WSZ + GUARD; ++i) {
        const bool infree = i >= GUARD + (unsigned)in.pre && i < GUARD + (unsigned)in.cap;
        const bool written = done && i < GUARD + in.pre + total;
        if (!infree || (done && !written))
            VP_ASSERT(wire[i] == in.wire[i], "C13.enc.nothing-else-written-to-the-sink");
    }
    /* frame: the payload sources */
    bool src_same = true;
    for (unsigned i = 0; i < SZ; ++i)
        src_same = src_same && mem[i] == in.mem[i];
    for (unsigned c = 0; c < NCH; ++c) {
        for (unsigned i = 0; i < CS; ++i)
            src_same = src_same && cmem[c][i] == in.cmem[c][i];
        src_same = src_same && ch[c].data == cmem[c] && ch[c].size == in.csize[c] &&
                   ch[c].used == in.cused[c];
    }
    src_same = src_same && b.data == mem && b.size == in.bsize && b.used == in.bused;
    VP_ASSERT(src_same, "C13.enc.payload-source-unchanged");
#if EP == EP_BUFFER_N
    if (done)
        VP_ASSERT(b.offset == (size_t)in.boff + n, "C13.enc.buffer-n-advances-by-n");
    VP_WITNESS(done && n == NP - 1 && in.bused - in.boff > n && in.boff > 0 && in.bused < in.bsize &&
               in.pre == 1 && in.kind == LENP_BE_32BIT, "C13.enc.buffer-n.reach");
    VP_WITNESS(n >= 2 && room + 1 == total && in.kind == LENP_VARIABLE, "C13.enc.buffer-n.sink-one-short.reach");
#elif EP == EP_BUFFER
    VP_WITNESS(done && n == NP && in.boff > 0 && in.bused < in.bsize && in.pre == 1 &&
               in.kind == LENP_LE_16BIT, "C13.enc.buffer.reach");
    VP_WITNESS(n >= 2 && room + 1 == total && in.kind == LENP_OCTET, "C13.enc.buffer.sink-one-short.reach");
#elif EP == EP_MEMORY
    VP_WITNESS(done && n == SZ && in.pre == 1 && in.kind == LENP_LE_32BIT, "C13.enc.memory.reach");
    VP_WITNESS(n >= 2 && room + 1 == total && in.kind == LENP_BE_16BIT, "C13.enc.memory.sink-one-short.reach");
#else
    VP_WITNESS(done && n >= 2 && in.nchunks == 3 && in.active == 0 && in.cused[1] == in.coff[1] &&
               in.coff[0] > 0 && in.cused[2] < in.csize[2] && in.kind == LENP_VARIABLE,
               "C13.enc.chunks.empty-middle-chunk.reach");
    VP_WITNESS(done && n == MAXT && in.kind == LENP_BE_16BIT, "C13.enc.chunks.all-full.reach");
    VP_WITNESS(done && n >= 2 && in.active == 1 && in.nchunks == 3 && in.cused[2] == in.coff[2],
               "C13.enc.chunks.active-1-empty-last.reach");
    VP_WITNESS(n >= 2 && room + 1 == total, "C13.enc.chunks.sink-one-short.reach");
#endif
}
VP_MAIN_EPILOGUE()
