/* C13 reference framing, written from the property text and the public header
 * (include/ufw/length-prefix.h): six prefix kinds
 *   LENP_VARIABLE  LEB128 (protobuf varint), maximum SSIZE_MAX ("half of 2^64",
 *                  because results are reported as ssize_t)
 *   LENP_OCTET     1 octet,             maximum 255
 *   LENP_LE_16BIT  2 octets LSB first,  maximum 65535
 *   LENP_LE_32BIT  4 octets LSB first,  maximum 2^32-1
 *   LENP_BE_16BIT  2 octets MSB first,  maximum 65535
 *   LENP_BE_32BIT  4 octets MSB first,  maximum 2^32-1
 * Nothing here is taken from src/length-prefix.c. */
#ifndef C13_REF_H
#define C13_REF_H

#include <limits.h>
#include <stdint.h>
#include <ufw/compat/ssize-t.h>
#include <ufw/length-prefix.h>

#define C13_NKINDS 6u
#define C13_PREFIX_MAX 10u

static uint64_t c13_kind_max(unsigned k)
{
    switch (k) {
    case LENP_VARIABLE: return (uint64_t)SSIZE_MAX;
    case LENP_OCTET:    return 255u;
    case LENP_LE_16BIT: return 65535u;
    case LENP_BE_16BIT: return 65535u;
    case LENP_LE_32BIT: return 4294967295u;
    default:            return 4294967295u; /* LENP_BE_32BIT */
    }
}

/* writes the kind's encoding of n into out[0..10), returns its length */
static unsigned c13_ref_prefix(unsigned k, uint64_t n, uint8_t out[C13_PREFIX_MAX])
{
    for (unsigned i = 0; i < C13_PREFIX_MAX; ++i)
        out[i] = 0;
    switch (k) {
    case LENP_OCTET:
        out[0] = (uint8_t)n;
        return 1;
    case LENP_LE_16BIT:
        out[0] = (uint8_t)(n & 0xffu);
        out[1] = (uint8_t)((n >> 8) & 0xffu);
        return 2;
    case LENP_BE_16BIT:
        out[1] = (uint8_t)(n & 0xffu);
        out[0] = (uint8_t)((n >> 8) & 0xffu);
        return 2;
    case LENP_LE_32BIT:
        out[0] = (uint8_t)(n & 0xffu);
        out[1] = (uint8_t)((n >> 8) & 0xffu);
        out[2] = (uint8_t)((n >> 16) & 0xffu);
        out[3] = (uint8_t)((n >> 24) & 0xffu);
        return 4;
    case LENP_BE_32BIT:
        out[3] = (uint8_t)(n & 0xffu);
        out[2] = (uint8_t)((n >> 8) & 0xffu);
        out[1] = (uint8_t)((n >> 16) & 0xffu);
        out[0] = (uint8_t)((n >> 24) & 0xffu);
        return 4;
    default: { /* LENP_VARIABLE: 7 bits per octet, least significant group
                * first, bit 7 set on every octet but the last, minimal */
        unsigned len = 0;
        for (unsigned i = 0; i < C13_PREFIX_MAX; ++i) {
            uint8_t g = (uint8_t)(n & 0x7fu);
            n >>= 7;
            if (n != 0) {
                out[i] = (uint8_t)(g | 0x80u);
            } else {
                out[i] = g;
                len = i + 1;
                break;
            }
        }
        return len;
    }
    }
}

#endif
