/* C13 (decoder content part): two frames back to back on one stream are decoded
 * in order into real memory / a real ByteBuffer / a real buffer sink, with the
 * destination capacity symbolic around the payload length.
 *
 * Units: src/length-prefix.c, src/variable-length-integer.c, src/byte-buffer.c,
 * src/endpoints/core.c, src/endpoints/buffer.c (linked unchanged).
 *
 * Stream: reference framing (c13_ref.h) of payload 1 (n1 octets) followed by
 * the reference framing of payload 2 (n2 octets), 1 <= n1, n2 <= NP.
 * Source (compile time):
 *   SRC == 0  the library's buffer source (source_from_buffer): every read is
 *             served completely while octets are left
 *   SRC == 1  scripted chunk source that serves 1..3 octets per read as chosen
 *             by the solver for every read ("however the source fragments its
 *             reads"); -ENODATA at the end of the stream
 * Destination (compile time): DST == 0 memory, 1 ByteBuffer, 2 buffer sink. */
#include <vp.h>
#include <string.h>
#include <ufw/compat/errno.h>
#include <ufw/byte-buffer.h>
#include <ufw/endpoints.h>
#include <ufw/length-prefix.h>
#include "c13_ref.h"

#ifndef NP
#define NP 4
#endif
#define GUARD 2
#define DSZ (2 * NP + 2)        /* destination memory: both payloads + two pre-filled octets */
#define WMAX (2 * (4 + NP))     /* stream: prefixes are <= 4 octets for lengths < 128 */
#define NREADS (2 * (4 + NP) + 2) /* upper bound on source reads of one run */

#define DST_MEMORY 0
#define DST_BUFFER 1
#define DST_SINK 2
#if !defined(SRC) || !defined(DST)
#error "SRC and DST are compile-time parameters"
#endif

struct vp_in {
    uint8_t kind;
    uint8_t n1, n2;
    uint8_t p1[NP], p2[NP];
    uint8_t dst[2][GUARD + DSZ + GUARD];
    uint8_t cap1, cap2;             /* memory destination capacities */
    uint8_t bsize, bused, boff;     /* buffer destination / sink buffer state */
    uint8_t frag[NREADS];
};
VP_DECLARE_INPUT();

static uint8_t wire[WMAX];
static size_t wlen;

#if SRC == 1
static struct {
    size_t pos;
    unsigned calls;
    uint8_t frag[NREADS];
    bool overrun;
} fs;
static ssize_t frag_read(void *drv, void *p, size_t n)
{
    (void)drv;
    if (fs.pos >= wlen)
        return -ENODATA;
    if (fs.calls >= NREADS) {
        fs.overrun = true;
        return -ENODATA;
    }
    size_t m = fs.frag[fs.calls++];
    if (m > n)
        m = n;
    if (m > wlen - fs.pos)
        m = wlen - fs.pos;
    uint8_t *d = p;
    for (size_t i = 0; i < m; ++i)
        d[i] = wire[fs.pos + i];
    fs.pos += m;
    return (ssize_t)m;
}
#endif

void harness(void)
{
    VP_INPUT(in);
#ifdef KIND
    in.kind = KIND; /* probing only */
#endif
    VP_ASSUME(in.kind < C13_NKINDS);
    VP_ASSUME(in.n1 >= 1 && in.n1 <= NP && in.n2 >= 1 && in.n2 <= NP);
    const LengthPrefixKind k = (LengthPrefixKind)in.kind;
    const size_t n1 = in.n1, n2 = in.n2;

    /* the stream */
    uint8_t ref[C13_PREFIX_MAX];
    unsigned pl = c13_ref_prefix(in.kind, n1, ref);
    wlen = 0;
    for (unsigned i = 0; i < 4; ++i)
        if (i < pl)
            wire[wlen++] = ref[i];
    for (unsigned i = 0; i < NP; ++i)
        if (i < n1)
            wire[wlen++] = in.p1[i];
    pl = c13_ref_prefix(in.kind, n2, ref);
    for (unsigned i = 0; i < 4; ++i)
        if (i < pl)
            wire[wlen++] = ref[i];
    for (unsigned i = 0; i < NP; ++i)
        if (i < n2)
            wire[wlen++] = in.p2[i];

    Source src;
#if SRC == 0
    ByteBuffer wb = { .data = wire, .size = WMAX, .used = wlen, .offset = 0 };
    source_from_buffer(&src, &wb);
#else
    for (unsigned i = 0; i < NREADS; ++i) {
        VP_ASSUME(in.frag[i] >= 1 && in.frag[i] <= 3);
        fs.frag[i] = in.frag[i];
    }
    fs.pos = 0;
    fs.calls = 0;
    fs.overrun = false;
    chunk_source_init(&src, frag_read, NULL);
#endif

    uint8_t dst[2][GUARD + DSZ + GUARD];
    for (unsigned j = 0; j < 2; ++j)
        for (unsigned i = 0; i < GUARD + DSZ + GUARD; ++i)
            dst[j][i] = in.dst[j][i];
    uint8_t *d0 = dst[0] + GUARD;
    bool second = false; /* frame 1 decoded: frame 2 must decode next */

#if DST == DST_MEMORY
    VP_ASSUME(in.cap1 <= DSZ && in.cap2 <= DSZ);
    const ssize_t rc1 = flenp_memory_from_source(k, &src, d0, in.cap1);
    const size_t keep1 = in.cap1; /* within its capacity the destination may be used freely */
    if (n1 <= in.cap1) {
        VP_ASSERT(rc1 == (ssize_t)n1, "C13.dec.memory.returns-payload-length");
        for (unsigned i = 0; i < NP; ++i)
            if (i < n1)
                VP_ASSERT(d0[i] == in.p1[i], "C13.dec.memory.exactly-the-payload");
        second = true;
    } else {
        VP_ASSERT(rc1 == -ENOMEM, "C13.dec.memory.reports-out-of-memory");
        VP_WITNESS(n1 == (size_t)in.cap1 + 1 && (NP < 2 || in.cap1 >= 1), "C13.dec.memory.one-short.reach");
    }
    for (unsigned i = 0; i < GUARD + DSZ + GUARD; ++i)
        if (i < GUARD || i >= GUARD + keep1)
            VP_ASSERT(dst[0][i] == in.dst[0][i], "C13.dec.memory.nothing-past-destination");
    if (second) {
        uint8_t *d1 = dst[1] + GUARD;
        const ssize_t rc2 = flenp_memory_from_source(k, &src, d1, in.cap2);
        if (n2 <= in.cap2) {
            VP_ASSERT(rc2 == (ssize_t)n2, "C13.dec.memory.second-frame-length");
            for (unsigned i = 0; i < NP; ++i)
                if (i < n2)
                    VP_ASSERT(d1[i] == in.p2[i], "C13.dec.memory.second-frame-in-order");
            VP_WITNESS(n1 == NP && n2 == NP && n1 == in.cap1 && n2 == in.cap2 &&
                       in.kind == LENP_LE_32BIT, "C13.dec.memory.two-frames-le32.reach");
            VP_WITNESS(n1 == NP && n2 == NP && in.kind == LENP_VARIABLE,
                       "C13.dec.memory.two-frames-varint.reach");
        } else {
            VP_ASSERT(rc2 == -ENOMEM, "C13.dec.memory.second-reports-out-of-memory");
        }
        for (unsigned i = 0; i < GUARD + DSZ + GUARD; ++i)
            if (i < GUARD || i >= GUARD + (unsigned)in.cap2)
                VP_ASSERT(dst[1][i] == in.dst[1][i], "C13.dec.memory.second-nothing-past-destination");
    }
#else
    /* one ByteBuffer takes both frames: directly, or as the buffer behind a sink */
    VP_ASSUME(in.bsize >= 1 && in.bsize <= DSZ && in.boff <= in.bused && in.bused <= in.bsize);
    VP_ASSUME(in.bused <= 2);
    ByteBuffer b = { .data = d0, .size = in.bsize, .used = in.bused, .offset = in.boff };
    const size_t size = in.bsize, used0 = in.bused, off0 = in.boff;
#if DST == DST_SINK
    Sink sink;
    sink_to_buffer(&sink, &b);
    const ssize_t rc1 = flenp_decode_source_to_sink(k, &src, &sink);
#else
    const ssize_t rc1 = flenp_buffer_from_source(k, &src, &b);
#endif
    size_t filled = used0;
    if (n1 <= size - used0) {
        VP_ASSERT(rc1 == (ssize_t)n1, "C13.dec.buffer.returns-payload-length");
        VP_ASSERT(b.used == used0 + n1, "C13.dec.buffer.appends-to-filled-region");
        VP_ASSERT(b.offset == off0, "C13.dec.buffer.unread-position-kept");
        for (unsigned i = 0; i < NP; ++i)
            if (i < n1)
                VP_ASSERT(d0[used0 + i] == in.p1[i], "C13.dec.buffer.exactly-the-payload");
        filled = used0 + n1;
        second = true;
    } else {
        VP_ASSERT(rc1 == -ENOMEM, "C13.dec.buffer.reports-out-of-memory");
        VP_WITNESS(n1 == size - used0 + 1 && (NP < 2 || size > used0), "C13.dec.buffer.one-short.reach");
    }
    if (second) {
#if DST == DST_SINK
        const ssize_t rc2 = flenp_decode_source_to_sink(k, &src, &sink);
#else
        const ssize_t rc2 = flenp_buffer_from_source(k, &src, &b);
#endif
        if (n2 <= size - used0 - n1) {
            VP_ASSERT(rc2 == (ssize_t)n2, "C13.dec.buffer.second-frame-length");
            VP_ASSERT(b.used == used0 + n1 + n2 && b.offset == off0, "C13.dec.buffer.second-appended");
            for (unsigned i = 0; i < NP; ++i)
                if (i < n2)
                    VP_ASSERT(d0[used0 + n1 + i] == in.p2[i], "C13.dec.buffer.second-frame-in-order");
            filled = used0 + n1 + n2;
            VP_WITNESS(n1 == NP && n2 == NP && used0 == 2 && off0 == 1 && size == DSZ && in.kind == LENP_BE_32BIT,
                       "C13.dec.buffer.two-frames-be32.reach");
            VP_WITNESS(n1 == NP && n2 == NP && in.kind == LENP_VARIABLE, "C13.dec.buffer.two-frames-varint.reach");
        } else {
            VP_ASSERT(rc2 == -ENOMEM, "C13.dec.buffer.second-reports-out-of-memory");
            VP_WITNESS(n2 == size - used0 - n1 + 1, "C13.dec.buffer.second-one-short.reach");
        }
    }
    VP_ASSERT(b.data == d0 && b.size == size, "C13.dec.buffer.frame");
    /* the filled region keeps what was there and what was appended; nothing
     * outside the buffer's memory is touched */
    for (unsigned i = 0; i < GUARD + DSZ + GUARD; ++i) {
        const bool inside = i >= GUARD && i < GUARD + size;
        if (!inside)
            VP_ASSERT(dst[0][i] == in.dst[0][i], "C13.dec.buffer.nothing-past-destination");
        else if (i < GUARD + used0)
            VP_ASSERT(dst[0][i] == in.dst[0][i], "C13.dec.buffer.filled-region-kept");
    }
    (void)filled;
#endif
#if SRC == 1
    VP_ASSERT(!fs.overrun, "C13.dec.harness-read-script-long-enough");
    VP_WITNESS(second && fs.calls >= 6 && in.frag[0] == 1 && in.frag[1] == 1 &&
               in.kind == LENP_LE_32BIT, "C13.dec.fragmented-prefix.reach");
#endif
}
VP_MAIN_EPILOGUE()
