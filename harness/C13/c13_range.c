/* C13 (range part): every encoder entry point and the two memory/buffer
 * decoders over the FULL length range of every prefix kind.
 *
 * Units: src/length-prefix.c, src/variable-length-integer.c, src/byte-buffer.c,
 * src/endpoints/core.c (linked unchanged).
 *
 * Method: no payload octet is moved. The sink is a recording chunk sink that
 * copies octets it is handed from "elsewhere" (the prefix) and records
 * (object, start, length) for pointers into the payload objects; the source
 * serves the prefix octets and records where it is asked to deposit the
 * payload. Payload objects are therefore *virtual*: ByteBuffer fields and
 * lengths are symbolic over (almost) the whole size_t range although the
 * backing object is 16 octets, which is sound as long as the framing code hands
 * the payload to the endpoint by reference (which is the point of length-prefix
 * framing, see the file comment of length-prefix.c). What octets arrive in a
 * real sink / destination is the business of c13_enc.c / c13_dec.c. */
#include <vp.h>
#include <string.h>
#include <ufw/compat/errno.h>
#include <ufw/byte-buffer.h>
#include <ufw/endpoints.h>
#include <ufw/length-prefix.h>
#include "c13_ref.h"

/* largest offset used in pointer arithmetic on a virtual object */
#define VOFF ((uint64_t)1 << 33)
#define NCH 3

enum { REG_MEM, REG_BUF, REG_C0, REG_C1, REG_C2, REG_DST, NREG };

#ifdef VP_REPLAY
/* never dereferenced; far apart so that base + VOFF ranges do not overlap */
#define REG_BASE(r) ((uint8_t *)(uintptr_t)(0x100000000000ull + ((uint64_t)(r) << 36)))
#else
/* one object per region (distinct objects for __CPROVER_same_object) */
static uint8_t vobj_mem[16], vobj_buf[16], vobj_c0[16], vobj_c1[16], vobj_c2[16], vobj_dst[16];
static uint8_t *reg_base_(int r)
{
    switch (r) {
    case REG_MEM: return vobj_mem;
    case REG_BUF: return vobj_buf;
    case REG_C0:  return vobj_c0;
    case REG_C1:  return vobj_c1;
    case REG_C2:  return vobj_c2;
    default:      return vobj_dst;
    }
}
#define REG_BASE(r) reg_base_(r)
#endif

static int which_region(const void *p, uint64_t *off)
{
    for (int r = 0; r < NREG; ++r) {
#ifdef VP_REPLAY
        uintptr_t a = (uintptr_t)p, b = (uintptr_t)REG_BASE(r);
        if (a >= b && a - b <= 4 * VOFF) {
            *off = (uint64_t)(a - b);
            return r;
        }
#else
        if (__CPROVER_same_object(p, REG_BASE(r))) {
            *off = (uint64_t)(__CPROVER_POINTER_OFFSET(p) -
                              __CPROVER_POINTER_OFFSET(REG_BASE(r)));
            return r;
        }
#endif
    }
    return -1;
}

/* ---- comparing sink ---------------------------------------------------
 * The expected stream is  exp_lit[0..exp_nlit)  (octets that live outside the
 * payload objects: the prefix) followed by exp_seg[0..exp_nseg) (ranges of the
 * payload objects). Every put must continue the expected stream exactly where
 * the previous one stopped; how the framer splits the stream into puts is
 * irrelevant. */
#define MAXSEG 4
struct seg {
    int reg;
    uint64_t start, len;
};
static struct {
    unsigned calls;
    bool bad;
    uint8_t exp_lit[C13_PREFIX_MAX];
    unsigned exp_nlit, litpos;
    struct seg exp_seg[MAXSEG];
    unsigned exp_nseg, cur;
    uint64_t pos;
} rec;

static ssize_t rec_sink(void *drv, const void *p, size_t n)
{
    (void)drv;
    rec.calls++;
    uint64_t off = 0;
    const int r = which_region(p, &off);
    if (n == 0) {
        rec.bad = true;
    } else if (rec.litpos < rec.exp_nlit) {
        if (r >= 0 || n > rec.exp_nlit - rec.litpos) {
            rec.bad = true;
        } else {
            const uint8_t *s = p;
            for (size_t i = 0; i < n; ++i)
                if (s[i] != rec.exp_lit[rec.litpos + i])
                    rec.bad = true;
            rec.litpos += (unsigned)n;
        }
    } else if (rec.cur < rec.exp_nseg) {
        const struct seg e = rec.exp_seg[rec.cur];
        if (r != e.reg || off != e.start + rec.pos || n > e.len - rec.pos) {
            rec.bad = true;
        } else {
            rec.pos += n;
            if (rec.pos == e.len) {
                rec.cur++;
                rec.pos = 0;
            }
        }
    } else {
        rec.bad = true;
    }
    return (ssize_t)n;
}

/* ---- virtual source --------------------------------------------------- */
static struct {
    unsigned calls;
    uint8_t pre[C13_PREFIX_MAX];
    unsigned plen, pos;
    uint64_t L, paypos;
    int dst_reg;
    uint64_t dst_start, dst_end; /* destination = [dst_start, dst_end) of dst_reg */
    bool misplaced, past_dst;
} vs;

static ssize_t vsrc_read(void *drv, void *p, size_t n)
{
    (void)drv;
    vs.calls++;
    if (n == 0)
        return -EINVAL;
    if (vs.pos < vs.plen) {
        size_t m = vs.plen - vs.pos;
        if (n < m)
            m = n;
        uint8_t *d = p;
        for (size_t i = 0; i < m; ++i)
            d[i] = vs.pre[vs.pos + i];
        vs.pos += (unsigned)m;
        return (ssize_t)m;
    }
    if (vs.paypos < vs.L) {
        uint64_t m = vs.L - vs.paypos;
        if (n < m)
            m = n;
        uint64_t off = 0;
        int r = which_region(p, &off);
        if (r != vs.dst_reg || off != vs.dst_start + vs.paypos)
            vs.misplaced = true;
        if (r != vs.dst_reg || off > vs.dst_end || m > vs.dst_end - off)
            vs.past_dst = true;
        vs.paypos += m;
        return (ssize_t)m;
    }
    return -ENODATA;
}

struct vp_in {
    uint8_t kind;                 /* used when the instance leaves the kind open */
    uint64_t n;                   /* memory length / argument of the _n variants / framed length L */
    uint64_t bsize, bused, boff;  /* (virtual) ByteBuffer state */
    uint64_t csize[NCH], cused[NCH], coff[NCH]; /* (virtual) chunk list */
    uint64_t cap;                 /* decoders: capacity of the destination memory */
};
VP_DECLARE_INPUT();

/* entry points (macros: the witnesses of the other entry points must not be
 * compiled into an instance, an unreachable witness makes it inconclusive) */
#define EP_MEMORY_ENCODE 0
#define EP_BUFFER_ENCODE 1
#define EP_BUFFER_ENCODE_N 2
#define EP_CHUNKS_USE 3
#define EP_MEMORY_TO_SINK 4
#define EP_BUFFER_TO_SINK 5
#define EP_BUFFER_TO_SINK_N 6
#define EP_CHUNKS_TO_SINK 7
#define EP_MEMORY_FROM_SOURCE 8
#define EP_BUFFER_FROM_SOURCE 9
#ifndef EP
#error "EP (entry point) is a compile-time parameter of the instance"
#endif
/* shape of the chunk list: compile-time (symbolic shapes are c13_enc.c's job) */
#ifndef NCHUNKS
#define NCHUNKS 3
#endif
#ifndef ACTIVE
#define ACTIVE 0
#endif

static uint64_t kmax;
static unsigned kindv;

/* the unread content of a prefix buffer must be the kind's encoding of total */
static void check_prefix_buffer(const ByteBuffer *pb, uint64_t total)
{
    uint8_t ref[C13_PREFIX_MAX];
    const unsigned plen = c13_ref_prefix(kindv, total, ref);
    VP_ASSERT(pb->offset <= pb->used && pb->used <= pb->size, "C13.prefix-object.buffer-valid");
    VP_ASSERT(pb->used - pb->offset == plen, "C13.prefix-object.length");
    if (pb->offset <= pb->used && pb->used - pb->offset == plen) {
        for (unsigned i = 0; i < C13_PREFIX_MAX; ++i)
            if (i < plen)
                VP_ASSERT(pb->data[pb->offset + i] == ref[i], "C13.prefix-object.encoding");
    }
}

/* before the call: tell the sink what the property says must arrive */
static void expect_sink(uint64_t total, unsigned nexp, const struct seg *exp)
{
    memset(&rec, 0, sizeof rec);
    rec.exp_nlit = c13_ref_prefix(kindv, total, rec.exp_lit);
    rec.exp_nseg = nexp;
    for (unsigned i = 0; i < MAXSEG; ++i)
        if (i < nexp)
            rec.exp_seg[i] = exp[i];
}

/* after the call */
static void check_sink(ssize_t rc, uint64_t total)
{
    const unsigned plen = rec.exp_nlit;
    if (total == 0)
        return; /* the property starts at length 1 */
    if (total > kmax) {
        VP_ASSERT(rc < 0, "C13.sink.refuses-beyond-maximum");
        VP_ASSERT(rec.calls == 0, "C13.sink.nothing-emitted-when-refused");
        return;
    }
    if (total > (uint64_t)SSIZE_MAX - plen) {
        /* length is legal but prefix + payload cannot be reported as ssize_t:
         * the property does not say what happens; a refusal must be clean */
        if (rc < 0)
            VP_ASSERT(rec.calls == 0, "C13.sink.nothing-emitted-when-refused");
        return;
    }
    VP_ASSERT(rc == (ssize_t)(plen + total), "C13.sink.reports-total");
    VP_ASSERT(!rec.bad, "C13.sink.emits-prefix-then-exactly-the-designated-octets");
    VP_ASSERT(rec.litpos == plen && rec.cur == rec.exp_nseg, "C13.sink.emits-everything");
}

/* One kind. `kk` is a concrete loop counter of harness(), so everything that
 * depends on the kind is constant-folded by symbolic execution. No VP_ASSUME in
 * here: an assumption made for one kind would restrict the inputs of the kinds
 * that follow. */
static void run_kind(const unsigned kk, const struct vp_in *inp)
{
    const struct vp_in in = *inp;
    kindv = kk;
    kmax = c13_kind_max(kk);
    const LengthPrefixKind k = (LengthPrefixKind)kk;
    const unsigned ep = EP;

    Sink sink;
    chunk_sink_init(&sink, rec_sink, NULL);

    ByteBuffer b = { .data = REG_BASE(REG_BUF), .size = in.bsize, .used = in.bused,
                     .offset = in.boff };
    const uint64_t brest = in.bused - in.boff;

    ByteBuffer ch[NCH];
    uint64_t ctotal = 0;
    struct seg cexp[MAXSEG];
    unsigned ncexp = 0;
    for (unsigned i = 0; i < NCH; ++i) {
        ch[i].data = REG_BASE(REG_C0 + i);
        ch[i].size = in.csize[i];
        ch[i].used = in.cused[i];
        ch[i].offset = in.coff[i];
        if (i >= ACTIVE && i < NCHUNKS) {
            const uint64_t r = in.cused[i] - in.coff[i];
            ctotal += r;
            if (r > 0) {
                cexp[ncexp].reg = REG_C0 + (int)i;
                cexp[ncexp].start = in.coff[i];
                cexp[ncexp].len = r;
                ncexp++;
            }
        }
    }

    {
#if EP == EP_MEMORY_ENCODE
    {
        LengthPrefixBuffer lpb;
        const int rc = flenp_memory_encode(k, &lpb, REG_BASE(REG_MEM), in.n);
        if (in.n == 0)
            return;
        if (in.n > kmax) {
            VP_ASSERT(rc < 0, "C13.memory-encode.refuses-beyond-maximum");
            VP_WITNESS(in.n == kmax + 1 && kk == LENP_VARIABLE, "C13.memory-encode.varint-max-plus-1.reach");
            VP_WITNESS(in.n == kmax + 1 && kk == LENP_BE_16BIT, "C13.memory-encode.be16-max-plus-1.reach");
            return;
        }
        VP_ASSERT(rc >= 0, "C13.memory-encode.accepts");
        check_prefix_buffer(&lpb.prefix, in.n);
        VP_ASSERT(lpb.payload.offset <= lpb.payload.used &&
                  lpb.payload.data + lpb.payload.offset == REG_BASE(REG_MEM) &&
                  lpb.payload.used - lpb.payload.offset == in.n,
                  "C13.memory-encode.payload-designates-memory");
        VP_WITNESS(in.n == kmax && kk == LENP_VARIABLE, "C13.memory-encode.varint-max.reach");
        VP_WITNESS(in.n == kmax && kk == LENP_LE_32BIT, "C13.memory-encode.le32-max.reach");
        VP_WITNESS(in.n == 1100 && kk == LENP_BE_16BIT, "C13.memory-encode.be16-1100.reach");
    }
#elif EP == EP_BUFFER_ENCODE || EP == EP_BUFFER_ENCODE_N
    {
        LengthPrefixBuffer lpb;
        const bool isn = (ep == EP_BUFFER_ENCODE_N);
        const uint64_t total = isn ? in.n : brest;
        const int rc = isn ? flenp_buffer_encode_n(k, &lpb, &b, in.n)
                           : flenp_buffer_encode(k, &lpb, &b);
        VP_ASSERT(b.data == REG_BASE(REG_BUF) && b.size == in.bsize && b.used == in.bused,
                  "C13.buffer-encode.source-buffer-frame");
        if (total == 0)
            return;
        if (total > kmax) {
            VP_ASSERT(rc < 0, "C13.buffer-encode.refuses-beyond-maximum");
            /* a refused request designates nothing: the unread octets stay unread */
            VP_ASSERT(b.offset == in.boff, "C13.buffer-encode.refusal-consumes-nothing");
            VP_WITNESS(total == kmax + 1 && kk == LENP_OCTET, "C13.buffer-encode.octet-max-plus-1.reach");
            return;
        }
        VP_ASSERT(rc >= 0, "C13.buffer-encode.accepts");
        check_prefix_buffer(&lpb.prefix, total);
        VP_ASSERT(lpb.payload.offset <= lpb.payload.used &&
                  lpb.payload.data + lpb.payload.offset == REG_BASE(REG_BUF) + in.boff &&
                  lpb.payload.used - lpb.payload.offset == total,
                  "C13.buffer-encode.payload-designates-unread-octets");
        if (isn)
            VP_ASSERT(b.offset == in.boff + in.n, "C13.buffer-encode-n.advances-by-n");
        VP_WITNESS(total == kmax && (!isn || brest > in.n) && in.boff > 0 && in.bused < in.bsize &&
                   kk == LENP_LE_16BIT, "C13.buffer-encode.le16-max.reach");
        VP_WITNESS(total == kmax && kk == LENP_VARIABLE, "C13.buffer-encode.varint-max.reach");
    }
#elif EP == EP_CHUNKS_USE
    {
        LengthPrefixChunks lpc;
        lpc.payload.chunks = NCHUNKS;
        lpc.payload.active = ACTIVE;
        lpc.payload.chunk = ch;
        const int rc = flenp_chunks_use(k, &lpc);
        bool same = lpc.payload.chunks == NCHUNKS && lpc.payload.active == ACTIVE &&
                    lpc.payload.chunk == ch;
        for (unsigned i = 0; i < NCH; ++i)
            same = same && ch[i].data == REG_BASE(REG_C0 + i) && ch[i].size == in.csize[i] &&
                   ch[i].used == in.cused[i] && ch[i].offset == in.coff[i];
        VP_ASSERT(same, "C13.chunks-use.chunk-list-still-designates-the-payload");
        if (ctotal == 0)
            return;
        if (ctotal > kmax) {
            VP_ASSERT(rc < 0, "C13.chunks-use.refuses-beyond-maximum");
            VP_WITNESS(ctotal == kmax + 1 && ncexp == NCHUNKS - ACTIVE && kk == LENP_LE_32BIT,
                       "C13.chunks-use.le32-max-plus-1.reach");
            return;
        }
        VP_ASSERT(rc >= 0, "C13.chunks-use.accepts");
        check_prefix_buffer(&lpc.prefix, ctotal);
#if NCHUNKS - ACTIVE >= 3
        VP_WITNESS(ctotal == kmax && ncexp + 1 == NCHUNKS - ACTIVE && kk == LENP_VARIABLE,
                   "C13.chunks-use.varint-max-with-empty-chunk.reach");
#else
        VP_WITNESS(ctotal == kmax && ncexp == NCHUNKS - ACTIVE && kk == LENP_BE_32BIT,
                   "C13.chunks-use.be32-max.reach");
#endif
    }
#elif EP == EP_MEMORY_TO_SINK
    {
        const struct seg e = { REG_MEM, 0, in.n };
        expect_sink(in.n, 1, &e);
        const ssize_t rc = flenp_memory_to_sink(k, &sink, REG_BASE(REG_MEM), in.n);
        check_sink(rc, in.n);
        VP_WITNESS(rc > 0 && in.n == kmax && kk == LENP_OCTET, "C13.memory-to-sink.octet-max.reach");
        VP_WITNESS(rc > 0 && in.n == 1100 && kk == LENP_VARIABLE, "C13.memory-to-sink.varint-1100.reach");
        VP_WITNESS(rc > 0 && kk == LENP_VARIABLE && in.n == kmax - 10, "C13.memory-to-sink.varint-largest.reach");
        VP_WITNESS(rc < 0 && in.n == kmax + 1 && kk == LENP_BE_32BIT, "C13.memory-to-sink.be32-max-plus-1.reach");
    }
#elif EP == EP_BUFFER_TO_SINK || EP == EP_BUFFER_TO_SINK_N
    {
        const bool isn = (ep == EP_BUFFER_TO_SINK_N);
        const uint64_t total = isn ? in.n : brest;
        const struct seg e = { REG_BUF, in.boff, total };
        expect_sink(total, 1, &e);
        const ssize_t rc = isn ? flenp_buffer_to_sink_n(k, &sink, &b, in.n)
                               : flenp_buffer_to_sink(k, &sink, &b);
        VP_ASSERT(b.data == REG_BASE(REG_BUF) && b.size == in.bsize && b.used == in.bused,
                  "C13.buffer-to-sink.source-buffer-frame");
        check_sink(rc, total);
        if (isn && total >= 1 && total <= kmax && total <= (uint64_t)SSIZE_MAX - C13_PREFIX_MAX)
            VP_ASSERT(b.offset == in.boff + in.n, "C13.buffer-to-sink-n.advances-by-n");
        if (isn && total > kmax)
            VP_ASSERT(b.offset == in.boff, "C13.buffer-to-sink-n.refusal-consumes-nothing");
        VP_WITNESS(rc > 0 && total == kmax && (!isn || brest > in.n) && in.boff > 0 &&
                   in.bused < in.bsize && kk == LENP_BE_16BIT, "C13.buffer-to-sink.be16-max.reach");
        VP_WITNESS(rc > 0 && total == 1100 && in.boff > 0 && kk == LENP_VARIABLE,
                   "C13.buffer-to-sink.varint-1100.reach");
        VP_WITNESS(rc < 0 && total == kmax + 1 && kk == LENP_OCTET, "C13.buffer-to-sink.octet-max-plus-1.reach");
    }
#elif EP == EP_CHUNKS_TO_SINK
    {
        ByteChunks oc = { .chunks = NCHUNKS, .active = ACTIVE, .chunk = ch };
        expect_sink(ctotal, ncexp, cexp);
        const ssize_t rc = flenp_chunks_to_sink(k, &sink, &oc);
        bool same = true;
        for (unsigned i = 0; i < NCH; ++i)
            same = same && ch[i].data == REG_BASE(REG_C0 + i) && ch[i].size == in.csize[i] &&
                   ch[i].used == in.cused[i];
        VP_ASSERT(same, "C13.chunks-to-sink.chunk-buffers-frame");
        check_sink(rc, ctotal);
        VP_WITNESS(rc > 0 && ctotal == kmax && ncexp == NCHUNKS - ACTIVE && kk == LENP_LE_16BIT,
                   "C13.chunks-to-sink.le16-max-all-chunks.reach");
#if NCHUNKS - ACTIVE >= 2
        VP_WITNESS(rc > 0 && ctotal >= 1 && ncexp + 1 == NCHUNKS - ACTIVE &&
                   in.cused[NCHUNKS - 1] > in.coff[NCHUNKS - 1] && kk == LENP_VARIABLE,
                   "C13.chunks-to-sink.varint-empty-chunk-before-last.reach");
#else
        VP_WITNESS(rc > 0 && ctotal == 1100 && kk == LENP_VARIABLE, "C13.chunks-to-sink.varint-1100.reach");
#endif
        VP_WITNESS(rc < 0 && ctotal == kmax + 1 && kk == LENP_OCTET, "C13.chunks-to-sink.octet-max-plus-1.reach");
    }
#elif EP == EP_MEMORY_FROM_SOURCE || EP == EP_BUFFER_FROM_SOURCE
    {
        const bool isb = (ep == EP_BUFFER_FROM_SOURCE);
        const uint64_t L = in.n;
        if (L < 1 || L > kmax)
            return; /* the stream carries a frame this kind can express */
        memset(&vs, 0, sizeof vs);
        vs.plen = c13_ref_prefix(kk, L, vs.pre);
        vs.L = L;
        vs.dst_reg = isb ? REG_BUF : REG_DST;
        vs.dst_start = isb ? in.bused : 0;
        vs.dst_end = isb ? in.bsize : in.cap;
        const uint64_t room = vs.dst_end - vs.dst_start;
        Source src;
        chunk_source_init(&src, vsrc_read, NULL);
        const ssize_t rc = isb ? flenp_buffer_from_source(k, &src, &b)
                               : flenp_memory_from_source(k, &src, REG_BASE(REG_DST), in.cap);
        VP_ASSERT(!vs.past_dst, "C13.decode.never-writes-past-destination");
        if (isb)
            VP_ASSERT(b.data == REG_BASE(REG_BUF) && b.size == in.bsize,
                      "C13.buffer-from-source.buffer-frame");
        if (L <= room) {
            VP_ASSERT(rc == (ssize_t)L, "C13.decode.returns-payload-length");
            VP_ASSERT(vs.paypos == L && !vs.misplaced, "C13.decode.exactly-the-payload-at-destination");
            if (isb) {
                VP_ASSERT(b.used == in.bused + L, "C13.buffer-from-source.appends-to-filled-region");
                VP_ASSERT(b.offset == in.boff, "C13.buffer-from-source.unread-position-kept");
            }
            VP_WITNESS(L == room && L == kmax && (!isb || (in.boff > 0 && in.boff < in.bused)) &&
                       kk == LENP_BE_32BIT, "C13.decode.exact-fit-be32-max.reach");
            VP_WITNESS(L == 1100 && kk == LENP_VARIABLE, "C13.decode.varint-1100.reach");
            VP_WITNESS(L == kmax && kk == LENP_VARIABLE, "C13.decode.varint-max.reach");
        } else {
            VP_ASSERT(rc == -ENOMEM, "C13.decode.reports-out-of-memory");
            VP_WITNESS(L == room + 1 && (!isb || in.boff < in.bused) && kk == LENP_LE_16BIT,
                       "C13.decode.one-short.reach");
        }
    }
#else
#error "unknown EP"
#endif
    }
}

void harness(void)
{
    VP_INPUT(in);
    /* ByteBuffer representation invariant; offsets that enter pointer
     * arithmetic on a virtual object stay below VOFF */
    VP_ASSUME(in.boff <= in.bused && in.bused <= in.bsize && in.boff <= VOFF);
    for (unsigned i = 0; i < NCH; ++i) {
        VP_ASSUME(in.coff[i] <= in.cused[i] && in.cused[i] <= in.csize[i] && in.coff[i] <= VOFF);
        VP_ASSUME(in.cused[i] - in.coff[i] <= ((uint64_t)1 << 62)); /* the sum cannot wrap */
        if (i < ACTIVE)
            VP_ASSUME(in.cused[i] == in.coff[i]); /* chunks before `active` are consumed */
    }
    if (EP == EP_BUFFER_ENCODE_N || EP == EP_BUFFER_TO_SINK_N)
        VP_ASSUME(in.n <= in.bused - in.boff); /* "its first n unread octets" */
    if (EP == EP_MEMORY_FROM_SOURCE || EP == EP_BUFFER_FROM_SOURCE)
        VP_ASSUME(in.cap <= (uint64_t)SSIZE_MAX && in.bsize <= (uint64_t)SSIZE_MAX && in.bused <= VOFF);

#ifdef KIND
    run_kind(KIND, &in); /* compile-time kind (probing only) */
#else
    VP_ASSUME(in.kind < C13_NKINDS);
    run_kind(in.kind, &in);
#endif
}
VP_MAIN_EPILOGUE()
