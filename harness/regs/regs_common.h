/* regs_common.h -- shared by the C01..C05 harnesses (register table).
 *
 * The real src/registers/core.c is #include'd into the harness TU, so static
 * helpers are reachable and nothing in /repo needs a hook.
 *
 * A table is built from a *symbolic description* (struct vp_table inside
 * struct vp_in). The reference model below works on that description and on an
 * octet-level reading of the property text; it never calls into core.c.
 */
#ifndef VP_REGS_COMMON_H
#define VP_REGS_COMMON_H

#include <vp.h>
#include <math.h>
#include <string.h>

#include <registers/core.c> /* the real implementation, from /repo/src */

#ifndef NAREA
#define NAREA 2
#endif
#ifndef NREG
#define NREG 3
#endif
/* Area bases / register addresses are confined to [0, VP_ADDR_LIMIT]: equality
 * of two formulations of 32-bit interval arithmetic is what makes these
 * queries hard for SAT; a small window keeps the upper bits constant. Request
 * addresses stay full 32 bit. */
#ifndef VP_ADDR_LIMIT
#define VP_ADDR_LIMIT 0x3fu
#endif
#ifndef AWORDS
#define AWORDS 6 /* words of backing store per area */
#endif

struct vp_area {
    uint32_t base;
    uint8_t size;      /* words, <= AWORDS */
    uint8_t flags;     /* REG_AF_* bits */
    uint8_t has_write; /* write callback present */
    uint8_t has_read;  /* read callback present */
    uint8_t custom;    /* callback-backed (mem == NULL) instead of memory-backed */
};

struct vp_entry {
    uint8_t type;  /* RegisterType 0..7 */
    uint8_t check; /* RegisterValidatorType 0..5 */
    uint32_t address;
    uint64_t lo, hi; /* bit images of min / max (range: lo = min, hi = max) */
    uint64_t def;    /* bit image of the default value */
};

struct vp_table {
    uint8_t nareas;   /* 0..NAREA */
    uint8_t nentries; /* 0..NREG */
    uint8_t bigendian;
    struct vp_area a[NAREA];
    struct vp_entry e[NREG];
    uint64_t cb_mask, cb_pat; /* callback validator: (bits & mask) == pat */
    /* what an area WITHOUT registers records as first/last is meaningless (the
     * property only speaks of the run of registers located in an area); the
     * directly linked state therefore carries arbitrary values there, so that
     * code relying on them is exposed (seed C02-E) */
    uint32_t junk_first[NAREA], junk_last[NAREA];
};

/* ---------------------------------------------------------------- storage */

static RegisterAtom vp_mem[NAREA][AWORDS];
static RegisterArea vp_areas[NAREA + 1];
static RegisterEntry vp_entries[NREG + 1];
static RegisterTable vp_t;
static struct vp_table vp_desc;
static unsigned vp_custom_reads, vp_custom_writes, vp_cb_calls;

static uint64_t vp_value_bits(RegisterValue v)
{
    uint64_t b = 0;
    switch (v.type) {
    case REG_TYPE_UINT16: b = v.value.u16; break;
    case REG_TYPE_UINT32: b = v.value.u32; break;
    case REG_TYPE_UINT64: b = v.value.u64; break;
    case REG_TYPE_SINT16: b = (uint16_t)v.value.s16; break;
    case REG_TYPE_SINT32: b = (uint32_t)v.value.s32; break;
    case REG_TYPE_SINT64: b = (uint64_t)v.value.s64; break;
    case REG_TYPE_FLOAT32: { uint32_t x; memcpy(&x, &v.value.f32, 4); b = x; break; }
    case REG_TYPE_FLOAT64: memcpy(&b, &v.value.f64, 8); break;
    default: break;
    }
    return b;
}

/* little-endian host: all union members alias the low octets */
static RegisterValueU vp_u_from_bits(uint64_t bits)
{
    RegisterValueU u;
    memset(&u, 0, sizeof u);
    memcpy(&u, &bits, sizeof bits);
    return u;
}

static RegisterValue vp_value(uint8_t type, uint64_t bits)
{
    RegisterValue v;
    v.type = (RegisterType)type;
    v.value = vp_u_from_bits(bits);
    return v;
}

static RegisterAccess vp_custom_read(const RegisterArea *a, RegisterAtom *dst,
                                     RegisterOffset off, RegisterOffset n)
{
    RegisterAccess rv = REG_ACCESS_RESULT_INIT;
    size_t idx = (size_t)(a - vp_areas);
    ++vp_custom_reads;
    for (RegisterOffset i = 0; i < n; ++i)
        dst[i] = vp_mem[idx][off + i];
    return rv;
}

static RegisterAccess vp_custom_write(RegisterArea *a, const RegisterAtom *src,
                                      RegisterOffset off, RegisterOffset n)
{
    RegisterAccess rv = REG_ACCESS_RESULT_INIT;
    size_t idx = (size_t)(a - vp_areas);
    ++vp_custom_writes;
    for (RegisterOffset i = 0; i < n; ++i)
        vp_mem[idx][off + i] = src[i];
    return rv;
}

static bool vp_validator_cb(const RegisterEntry *e, RegisterValue v)
{
    (void)e;
    ++vp_cb_calls;
    return (vp_value_bits(v) & vp_desc.cb_mask) == vp_desc.cb_pat;
}

/* Build the RegisterTable from the description (no validation here). */
static void vp_build(const struct vp_table *d)
{
    vp_desc = *d;
    /* vp_areas / vp_entries are static (zero-initialised) and built once */
    for (unsigned i = 0; i < NAREA; ++i) {
        if (i >= d->nareas)
            break;
        RegisterArea *a = &vp_areas[i];
        a->base = d->a[i].base;
        a->size = d->a[i].size;
        a->flags = d->a[i].flags;
        if (d->a[i].custom) {
            a->read = d->a[i].has_read ? vp_custom_read : NULL;
            a->write = d->a[i].has_write ? vp_custom_write : NULL;
            a->mem = NULL;
        } else {
            a->read = d->a[i].has_read ? reg_mem_read : NULL;
            a->write = d->a[i].has_write ? reg_mem_write : NULL;
            a->mem = vp_mem[i];
        }
    }
    for (unsigned i = 0; i <= NREG; ++i)
        vp_entries[i].type = REG_TYPE_INVALID;
    for (unsigned i = 0; i < NREG; ++i) {
        if (i >= d->nentries)
            break;
        RegisterEntry *e = &vp_entries[i];
        e->type = (RegisterType)d->e[i].type;
        e->address = d->e[i].address;
        e->default_value = vp_u_from_bits(d->e[i].def);
        e->check.type = (RegisterValidatorType)d->e[i].check;
        switch (d->e[i].check) {
        case REGV_TYPE_MIN: e->check.arg.min = vp_u_from_bits(d->e[i].lo); break;
        case REGV_TYPE_MAX: e->check.arg.max = vp_u_from_bits(d->e[i].hi); break;
        case REGV_TYPE_RANGE:
            e->check.arg.range.min = vp_u_from_bits(d->e[i].lo);
            e->check.arg.range.max = vp_u_from_bits(d->e[i].hi);
            break;
        case REGV_TYPE_CALLBACK: e->check.arg.cb = vp_validator_cb; break;
        default: break;
        }
    }
    vp_t.flags = d->bigendian ? REG_TF_BIG_ENDIAN : 0;
    vp_t.areas = 0;
    vp_t.entries = 0;
    vp_t.area = vp_areas;
    vp_t.entry = vp_entries;
}

/* Basic sanity of a description so that it denotes a legal C object graph
 * (sizes fit the backing store, enum fields in range). Everything else
 * (order, overlap, placement) is what register_init must decide. */
static bool vp_desc_wellformed(const struct vp_table *d)
{
    if (d->nareas > NAREA || d->nentries > NREG || d->bigendian > 1)
        return false;
    for (unsigned i = 0; i < NAREA; ++i) {
        if (i >= d->nareas)
            break;
        const struct vp_area *a = &d->a[i];
        if (a->size > AWORDS || a->has_write > 1 || a->has_read > 1 || a->custom > 1)
            return false;
        if (a->flags & ~(REG_AF_READABLE | REG_AF_WRITEABLE | REG_AF_SKIP_DEFAULTS))
            return false;
        /* must not look like the end-of-areas sentinel */
        if (!a->has_read && !a->has_write && a->size == 0 && a->base == 0 && a->custom)
            return false;
    }
    for (unsigned i = 0; i < NREG; ++i) {
        if (i >= d->nentries)
            break;
        if (d->e[i].type > REG_TYPE_FLOAT64 || d->e[i].check > REGV_TYPE_CALLBACK)
            return false;
    }
    return true;
}

/* ------------------------------------------------------ reference model */

static unsigned ref_size(uint8_t type)
{
    switch (type) {
    case REG_TYPE_UINT16: case REG_TYPE_SINT16: return 1;
    case REG_TYPE_UINT32: case REG_TYPE_SINT32: case REG_TYPE_FLOAT32: return 2;
    case REG_TYPE_UINT64: case REG_TYPE_SINT64: case REG_TYPE_FLOAT64: return 4;
    default: return 0;
    }
}

static uint64_t ref_mask(uint8_t type)
{
    unsigned s = ref_size(type);
    return s == 1 ? 0xffffull : s == 2 ? 0xffffffffull : ~0ull;
}

/* octet k (0 = lowest address) of a value of `type` in the table's order */
static uint8_t ref_octet(uint64_t bits, uint8_t type, bool be, unsigned k)
{
    unsigned w = 2 * ref_size(type);
    unsigned sh = be ? 8 * (w - 1 - k) : 8 * k;
    return (uint8_t)(bits >> sh);
}

/* decode `type` from an octet image */
static uint64_t ref_decode(const uint8_t *o, uint8_t type, bool be)
{
    unsigned w = 2 * ref_size(type);
    uint64_t bits = 0;
    for (unsigned k = 0; k < 8; ++k) {
        if (k >= w)
            break;
        unsigned sh = be ? 8 * (w - 1 - k) : 8 * k;
        bits |= (uint64_t)o[k] << sh;
    }
    return bits;
}

/* floats must be zero or normal (not NaN, infinite, subnormal) */
static bool ref_float_ok(uint64_t bits, uint8_t type)
{
    if (type == REG_TYPE_FLOAT32) {
        uint32_t e = (uint32_t)(bits >> 23) & 0xffu;
        if ((bits & 0x7fffffffull) == 0)
            return true;
        return e != 0 && e != 0xffu;
    }
    if (type == REG_TYPE_FLOAT64) {
        uint32_t e = (uint32_t)(bits >> 52) & 0x7ffu;
        if ((bits & 0x7fffffffffffffffull) == 0)
            return true;
        return e != 0 && e != 0x7ffu;
    }
    return true;
}

/* a >= b (ge) / a <= b (!ge) in the register's type */
static bool ref_cmp(uint8_t type, uint64_t a, uint64_t b, bool ge)
{
    switch (type) {
    case REG_TYPE_UINT16: return ge ? (uint16_t)a >= (uint16_t)b : (uint16_t)a <= (uint16_t)b;
    case REG_TYPE_UINT32: return ge ? (uint32_t)a >= (uint32_t)b : (uint32_t)a <= (uint32_t)b;
    case REG_TYPE_UINT64: return ge ? a >= b : a <= b;
    case REG_TYPE_SINT16: return ge ? (int16_t)a >= (int16_t)b : (int16_t)a <= (int16_t)b;
    case REG_TYPE_SINT32: return ge ? (int32_t)a >= (int32_t)b : (int32_t)a <= (int32_t)b;
    case REG_TYPE_SINT64: return ge ? (int64_t)a >= (int64_t)b : (int64_t)a <= (int64_t)b;
    case REG_TYPE_FLOAT32: {
        float x, y; uint32_t xa = (uint32_t)a, yb = (uint32_t)b;
        memcpy(&x, &xa, 4); memcpy(&y, &yb, 4);
        return ge ? x >= y : x <= y;
    }
    case REG_TYPE_FLOAT64: {
        double x, y;
        memcpy(&x, &a, 8); memcpy(&y, &b, 8);
        return ge ? x >= y : x <= y;
    }
    default: return false;
    }
}

/* does `bits` satisfy the constraint of entry description `e`? */
static bool ref_constraint(const struct vp_table *d, const struct vp_entry *e,
                           uint64_t bits, bool during_init)
{
    switch (e->check) {
    case REGV_TYPE_TRIVIAL: return true;
    case REGV_TYPE_FAIL: return during_init;
    case REGV_TYPE_MIN: return ref_cmp(e->type, bits, e->lo, true);
    case REGV_TYPE_MAX: return ref_cmp(e->type, bits, e->hi, false);
    case REGV_TYPE_RANGE:
        return ref_cmp(e->type, bits, e->lo, true) && ref_cmp(e->type, bits, e->hi, false);
    case REGV_TYPE_CALLBACK: return ((bits & ref_mask(e->type)) & d->cb_mask) == d->cb_pat;
    default: return false;
    }
}

/* index of the area containing addr, or -1 */
static int ref_area_of(const struct vp_table *d, uint32_t addr)
{
    for (unsigned i = 0; i < NAREA; ++i) {
        if (i >= d->nareas)
            break;
        uint64_t b = d->a[i].base, s = d->a[i].size;
        if ((uint64_t)addr >= b && (uint64_t)addr < b + s)
            return (int)i;
    }
    return -1;
}

static bool ref_area_block_writeable(const struct vp_area *a)
{
    return a->has_write && (a->flags & REG_AF_WRITEABLE);
}

static bool ref_area_block_readable(const struct vp_area *a)
{
    return a->has_read && (a->flags & REG_AF_READABLE);
}

/* stored word at a mapped address (shadow and memory-backed alike) */
static RegisterAtom ref_word(const struct vp_table *d, uint32_t addr)
{
    int ai = ref_area_of(d, addr);
    return vp_mem[ai][addr - d->a[ai].base];
}

static uint8_t vp_mem_octet(unsigned area, unsigned octet)
{
    return ((const uint8_t *)vp_mem[area])[octet];
}

/* octet image of the register `e` as currently stored (host is little endian:
 * the in-memory octet image of the word array) */
static void ref_entry_octets(const struct vp_table *d, const struct vp_entry *e, uint8_t *o)
{
    int ai = ref_area_of(d, e->address);
    unsigned off = e->address - d->a[ai].base;
    for (unsigned k = 0; k < 8; ++k) {
        if (k >= 2 * ref_size(e->type))
            break;
        o[k] = vp_mem_octet((unsigned)ai, 2 * off + k);
    }
}

/* well-formedness of a description, as the property (C04) lists it: at least
 * one area, areas ascending and non-overlapping, registers ascending and
 * non-overlapping, every register wholly inside one area. (Defaults are
 * judged separately.) No 2^32 wrap-around: callers bound bases/addresses. */
static bool ref_layout_ok(const struct vp_table *d)
{
    if (d->nareas == 0)
        return false;
    for (unsigned i = 1; i < NAREA; ++i) {
        if (i >= d->nareas)
            break;
        if ((uint64_t)d->a[i].base < (uint64_t)d->a[i - 1].base + d->a[i - 1].size)
            return false;
    }
    for (unsigned i = 1; i < NREG; ++i) {
        if (i >= d->nentries)
            break;
        if ((uint64_t)d->e[i].address < (uint64_t)d->e[i - 1].address + ref_size(d->e[i - 1].type))
            return false;
    }
    for (unsigned i = 0; i < NREG; ++i) {
        if (i >= d->nentries)
            break;
        int ai = ref_area_of(d, d->e[i].address);
        if (ai < 0)
            return false;
        if ((uint64_t)d->e[i].address + ref_size(d->e[i].type) >
            (uint64_t)d->a[ai].base + d->a[ai].size)
            return false;
    }
    return true;
}

static bool ref_area_loads_defaults(const struct vp_area *a)
{
    return a->has_write && !(a->flags & REG_AF_SKIP_DEFAULTS);
}

/* is `bits` an acceptable value for register e (decodes + constraint)? */
static bool ref_value_ok(const struct vp_table *d, const struct vp_entry *e, uint64_t bits,
                         bool during_init)
{
    return ref_float_ok(bits, e->type) && ref_constraint(d, e, bits, during_init);
}


/* Direct construction of the state register_init leaves behind for a
 * well-formed description (ref_layout_ok): used instead of running the real
 * register_init where the property is about later operations, to keep the
 * query small. That the real register_init produces exactly this linking
 * (areas/entries counts, e->area, e->offset, area.entry.first/last/count,
 * INITIALISED flag) is what the C04 harness asserts against these very
 * functions. Memory contents are NOT set here (callers install their own). */
static unsigned ref_area_first(const struct vp_table *d, unsigned ai, unsigned *count)
{
    unsigned first = 0, n = 0;
    for (unsigned i = 0; i < NREG; ++i) {
        if (i >= d->nentries)
            break;
        if (ref_area_of(d, d->e[i].address) == (int)ai) {
            if (n == 0)
                first = i;
            ++n;
        }
    }
    *count = n;
    return first;
}

static void vp_link_direct(const struct vp_table *d)
{
    vp_build(d);
    vp_t.areas = d->nareas;
    vp_t.entries = d->nentries;
    vp_t.flags |= REG_TF_INITIALISED;
    for (unsigned i = 0; i < NREG; ++i) {
        if (i >= d->nentries)
            break;
        int ai = ref_area_of(d, d->e[i].address);
        vp_entries[i].area = &vp_areas[ai];
        vp_entries[i].offset = d->e[i].address - d->a[ai].base;
    }
    for (unsigned a = 0; a < NAREA; ++a) {
        if (a >= d->nareas)
            break;
        unsigned n, first = ref_area_first(d, a, &n);
        vp_areas[a].entry.first = n ? first : d->junk_first[a];
        vp_areas[a].entry.last = n ? first + n - 1 : d->junk_last[a];
        vp_areas[a].entry.count = n;
    }
}


/* Concrete table geometry, enumerated by the driver (one query per geometry):
 * area bases/sizes and register addresses/word counts are compile-time
 * constants (-DGA_N, -DGAi_B, -DGAi_S, -DGR_N, -DGRi_A, -DGRi_W); everything
 * else in the description (flags, callbacks, backing kind, register types
 * within the size class, constraint kinds and bounds, defaults, byte order)
 * stays symbolic. Symbolic geometry makes every e->area / a->mem access a case
 * split over all objects and cost two orders of magnitude more (measured). */
#ifdef GA_N
static void vp_apply_geometry(struct vp_table *d)
{
    d->nareas = GA_N;
    d->nentries = GR_N;
#if GA_N > 0
    d->a[0].base = GA0_B; d->a[0].size = GA0_S;
#endif
#if GA_N > 1
    d->a[1].base = GA1_B; d->a[1].size = GA1_S;
#endif
#if GA_N > 2
    d->a[2].base = GA2_B; d->a[2].size = GA2_S;
#endif
#if GR_N > 0
    d->e[0].address = GR0_A;
#endif
#if GR_N > 1
    d->e[1].address = GR1_A;
#endif
#if GR_N > 2
    d->e[2].address = GR2_A;
#endif
#if GR_N > 3
    d->e[3].address = GR3_A;
#endif
#if GR_N > 4
    d->e[4].address = GR4_A;
#endif
}

static bool vp_geometry_types_ok(const struct vp_table *d)
{
    bool ok = true;
#if GR_N > 0
    ok = ok && ref_size(d->e[0].type) == GR0_W;
#endif
#if GR_N > 1
    ok = ok && ref_size(d->e[1].type) == GR1_W;
#endif
#if GR_N > 2
    ok = ok && ref_size(d->e[2].type) == GR2_W;
#endif
#if GR_N > 3
    ok = ok && ref_size(d->e[3].type) == GR3_W;
#endif
#if GR_N > 4
    ok = ok && ref_size(d->e[4].type) == GR4_W;
#endif
    return ok;
}
#endif

/* copy of all backing words, for frame conditions */
struct vp_snapshot {
    RegisterAtom mem[NAREA][AWORDS];
    uint16_t flags[NREG];
};

static void vp_snap(struct vp_snapshot *s)
{
    for (unsigned a = 0; a < NAREA; ++a)
        for (unsigned w = 0; w < AWORDS; ++w)
            s->mem[a][w] = vp_mem[a][w];
    for (unsigned i = 0; i < NREG; ++i)
        s->flags[i] = vp_entries[i].flags;
}

static bool vp_mem_equal(const struct vp_snapshot *s)
{
    for (unsigned a = 0; a < NAREA; ++a)
        for (unsigned w = 0; w < AWORDS; ++w)
            if (s->mem[a][w] != vp_mem[a][w])
                return false;
    return true;
}

static bool vp_flags_equal(const struct vp_snapshot *s)
{
    for (unsigned i = 0; i < NREG; ++i)
        if (s->flags[i] != vp_entries[i].flags)
            return false;
    return true;
}

#endif /* VP_REGS_COMMON_H */
