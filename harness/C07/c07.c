/* C07: corrupted frames are never executed nor acknowledged.
 * Unit: src/register-protocol.c (#include'd) + continuable-sink.c, byte-buffer.c,
 * allocator.c, crc-16-arc.c, endpoints/core.c; framing layer = contract stubs. */
#include "../regp/regp_common.h"

struct vp_in {
    uint8_t mem16;
    struct vp_backend_script bs;
    uint8_t garbage[8];
#if defined(MODE_CLASSIFY)
    struct vp_rx_script rx;
#else
    /* a valid serial frame described by its fields ... */
    uint8_t type, meta, ws16;
    uint16_t seq;
    uint32_t addr, bs_field;
    uint8_t npl; /* payload words */
    uint8_t pl[PLMAX];
    /* ... and the damage */
    uint8_t xor_mask[LMAX];
    uint8_t cut;      /* truncation: deliver only this many octets */
    uint8_t ext_n;    /* extension: append 1..3 octets */
    uint8_t ext[3];
#endif
};
VP_DECLARE_INPUT();

static unsigned popcount8(uint8_t x)
{
    unsigned n = 0;
    for (unsigned k = 0; k < 8; ++k)
        n += (x >> k) & 1u;
    return n;
}

void harness(void)
{
    VP_INPUT(in);
#ifdef TCP
    const bool tcp = true;
#else
    const bool tcp = false;
#endif
    VP_ASSUME(in.mem16 <= 1);
    VP_ASSUME(in.bs.status <= RP_RESP_EIO); /* backend contract: one of the 12 response codes */
    for (unsigned i = 0; i < 8; ++i)
        vp_al.garbage[i] = in.garbage[i];
    vp_regp_setup(tcp, in.mem16);
    vp_bs = in.bs;

#if defined(MODE_CLASSIFY)
    VP_ASSUME(in.rx.len <= LMAX);
    vp_rx = in.rx;
    vp_rx.err_after = 0xff; /* no source error here (see C09) */
#else
    /* ---- build the valid frame G (serial conventions: header CRC always,
     * payload CRC iff payload) */
    struct ref_frame g = { 0 };
    VP_ASSUME(in.type == RP_FRAME_READ_REQUEST || in.type == RP_FRAME_READ_RESPONSE ||
              in.type == RP_FRAME_WRITE_REQUEST || in.type == RP_FRAME_WRITE_RESPONSE ||
              in.type == RP_FRAME_META);
    VP_ASSUME(in.ws16 <= 1 && in.npl <= PW);
    g.type = in.type;
    g.seq = in.seq;
    g.addr = in.addr;
    unsigned ws = in.ws16 ? 2 : 1;
    unsigned npl = in.npl;
    if (g.type == RP_FRAME_READ_REQUEST) {
        g.meta = 0;
        g.bs = in.bs_field; /* any requested length */
        npl = 0;
    } else if (g.type == RP_FRAME_WRITE_REQUEST) {
        g.meta = 0;
        g.bs = npl;
    } else if (g.type == RP_FRAME_META) {
        VP_ASSUME(in.meta >= 1 && in.meta <= 2);
        g.meta = in.meta;
        npl = 0;
        g.bs = 0;
    } else {
        VP_ASSUME(in.meta <= RP_RESP_EIO);
        g.meta = in.meta;
        if (g.type == RP_FRAME_WRITE_RESPONSE && in.meta == RP_RESP_ACK)
            npl = 0;
        g.bs = npl;
    }
    g.plen = (uint16_t)(npl * ws);
    for (unsigned i = 0; i < PLMAX; ++i)
        g.pl[i] = (i < g.plen) ? in.pl[i] : 0;
    g.options = (uint8_t)((in.ws16 ? RP_OPT_WORD_SIZE_16 : 0) | RP_OPT_WITH_HEADER_CRC |
                          (g.plen ? RP_OPT_WITH_PAYLOAD_CRC : 0));
    uint8_t G[LMAX + 4] = { 0 };
    unsigned glen = ref_encode(&g, G);
    VP_ASSUME(glen <= LMAX);
    /* ---- damage it */
    unsigned flen = glen;
#if defined(MODE_FLIP1) || defined(MODE_FLIP2) || defined(MODE_BURST)
    unsigned bits = 0;
    int first = -1, last = -1;
    for (unsigned i = 0; i < LMAX; ++i) {
        if (i >= glen) {
            VP_ASSUME(in.xor_mask[i] == 0);
            continue;
        }
        bits += popcount8(in.xor_mask[i]);
        for (unsigned k = 0; k < 8; ++k) {
            /* bit position in transmission order on a serial line: octets in
             * order, least significant bit of each octet first (UART order,
             * which is also the bit order CRC-16/ARC, a reflected CRC, is
             * defined over; a burst is contiguous in THIS order) */
            if (in.xor_mask[i] & (1u << k)) {
                if (first < 0)
                    first = (int)(8 * i + k);
                last = (int)(8 * i + k);
            }
        }
        G[i] ^= in.xor_mask[i];
    }
#if defined(MODE_FLIP1)
    VP_ASSUME(bits == 1); /* anywhere, including the first header word */
#elif defined(MODE_FLIP2)
    VP_ASSUME(bits == 2 && first >= 16); /* inside seq / address / size / checksums / payload */
#ifdef FIRST_OCTET
    VP_ASSUME(first / 8 == FIRST_OCTET); /* thorough: split by position of the first flipped bit */
#endif
#else
    VP_ASSUME(bits >= 2 && first >= 16 && last - first + 1 >= 2 && last - first + 1 <= 16);
    /* KNOWN FINDING burst_hdcrc_boundary (see known-findings.txt, DESIGN.md):
     * the header checksum of a reflected CRC is transmitted most significant
     * octet first, so a burst that covers bits on both sides of the boundary
     * between the last block-size octet (octet 11) and the header checksum word
     * (octets 12-13) can cancel out and go undetected. Wire format, not fixable
     * by a patch; the region is excluded here and must still fail in the
     * confirming run. */
#ifdef VP_KF_burst_hdcrc_boundary
    VP_ASSUME(!(first < 96 && last >= 96));
#endif
#ifdef VP_KFC_burst_hdcrc_boundary
    VP_ASSUME(first < 96 && last >= 96);
#endif
#endif
#elif defined(MODE_TRUNC)
    VP_ASSUME(in.cut < glen);
    flen = in.cut;
#elif defined(MODE_EXTEND)
    VP_ASSUME(in.ext_n >= 1 && in.ext_n <= 3 && glen + in.ext_n <= LMAX);
    for (unsigned i = 0; i < 3; ++i)
        if (i < in.ext_n)
            G[glen + i] = in.ext[i];
    flen = glen + in.ext_n;
#else
#error "no MODE"
#endif
    vp_rx.len = (uint8_t)flen;
    for (unsigned i = 0; i < LMAX; ++i)
        vp_rx.oct[i] = (i < flen) ? G[i] : 0;
    vp_rx.err_after = 0xff;
#endif

    /* ---- the receiver */
    RPMaybeFrame mf;
    const int rc = regp_recv(&vp_p, &mf);
    const unsigned sent_by_recv = vp_tx_frames;

    struct ref_frame rf = { 0 };
    const int verdict = ref_classify(vp_rx.oct, vp_rx.len, &rf);

    VP_ASSERT(rc == 0, "C07.recv-returns-zero");
    VP_ASSERT(vp_rx_framer == (tcp ? 2 : 1) && vp_rx_mode_ok, "C07.recv-uses-the-transport-deframer");
#if defined(MODE_CLASSIFY)
    if (verdict == REF_SIZE_EITHER)
        VP_ASSERT(mf.error.id == 0 || mf.error.id == EFAULT, "C07.verdict-either");
    else
        VP_ASSERT(mf.error.id == ref_errno(verdict), "C07.verdict-equals-independent-reading");
#else
    /* a damaged frame is never accepted */
    VP_ASSERT(mf.error.id == EBADMSG || mf.error.id == EILSEQ || mf.error.id == EFAULT || mf.error.id == EPROTO,
              "C07.damaged-frame-classified-as-one-of-four");
    VP_ASSERT(verdict != REF_OK && verdict != REF_SIZE_EITHER, "C07.damaged-frame-reference-rejects-too");
#endif
    /* header faults: the matching meta message, sent by regp_recv */
    if (mf.error.id == EBADMSG) {
        struct ref_frame m = expect_meta(RP_META_EHEADERENC, tcp);
        VP_ASSERT(sent_by_recv == 1 && tx_is(vp_tx, &m, tcp), "C07.bad-header-encoding-meta-sent");
    } else if (mf.error.id == EILSEQ) {
        struct ref_frame m = expect_meta(RP_META_EHEADERCRC, tcp);
        VP_ASSERT(sent_by_recv == 1 && tx_is(vp_tx, &m, tcp), "C07.bad-header-checksum-meta-sent");
    } else {
        VP_ASSERT(sent_by_recv == 0, "C07.no-reply-from-recv-otherwise");
    }

    const int rcp = regp_process(&vp_p, &mf);
    VP_ASSERT(rcp == 0, "C07.process-returns-zero");
    if (mf.error.id != 0) {
        VP_ASSERT(vp_bl.calls == 0, "C07.rejected-frame-never-executed");
        if ((mf.error.id == EFAULT || mf.error.id == EPROTO) && ref_is_request(rf.type)) {
            struct ref_frame er = expect_error_reply(
                &rf, mf.error.id == EFAULT ? RP_RESP_EPAYLOADSIZE : RP_RESP_EPAYLOADCRC, tcp);
            VP_ASSERT(vp_tx_frames == 1 && tx_is(vp_tx, &er, tcp), "C07.payload-fault-on-request-error-response");
        } else {
            VP_ASSERT(vp_tx_frames == sent_by_recv, "C07.no-further-reply");
        }
    } else {
        /* accepted: the parsed fields are the reference's */
        const RPFrame *f = mf.frame;
        VP_ASSERT(f != NULL, "C07.accepted-frame-returned");
        if (f != NULL) {
            VP_ASSERT((uint8_t)f->header.type == rf.type && f->header.options == rf.options &&
                          f->header.meta.raw == rf.meta && f->header.sequence == rf.seq &&
                          f->header.address == rf.addr && f->header.blocksize == rf.bs,
                      "C07.accepted-fields-equal-reference");
            VP_ASSERT(f->payload.size == rf.plen, "C07.accepted-payload-size");
            for (unsigned i = 0; i < LMAX; ++i)
                if (i < rf.plen)
                    VP_ASSERT(((const uint8_t *)f->payload.data)[i] == rf.pl[i], "C07.accepted-payload-octets");
        }
        if (!ref_is_request(rf.type))
            VP_ASSERT(vp_bl.calls == 0 && vp_tx_frames == 0, "C07.non-request-neither-executed-nor-answered");
    }
    regp_free(&vp_p, mf.frame);
    VP_ASSERT(vp_ledger_balanced() && vp_al.allocs <= 1, "C07.block-released-exactly-once");

#if defined(MODE_CLASSIFY)
    VP_WITNESS(mf.error.id == 0 && rf.type == RP_FRAME_WRITE_REQUEST && rf.plen == 4 &&
                   (rf.options & RP_OPT_WITH_PAYLOAD_CRC) && vp_bl.calls == 1,
               "C07.classify.accepted-write-with-plcrc.reach");
    VP_WITNESS(mf.error.id == EPROTO && rf.type == RP_FRAME_WRITE_REQUEST && !(rf.options & RP_OPT_WITH_HEADER_CRC),
               "C07.classify.bad-plcrc-without-hdcrc.reach");
    VP_WITNESS(mf.error.id == EILSEQ && vp_rx.len == LMAX, "C07.classify.bad-hdcrc.reach");
    VP_WITNESS(mf.error.id == EFAULT && rf.type == RP_FRAME_READ_REQUEST, "C07.classify.read-request-with-payload.reach");
    VP_WITNESS(mf.error.id == EBADMSG && vp_rx.len == 13, "C07.classify.short-header.reach");
    VP_WITNESS(mf.error.id == 0 && rf.type == RP_FRAME_READ_RESPONSE && rf.meta == RP_RESP_EIO,
               "C07.classify.eio-response-accepted.reach");
    VP_WITNESS(mf.error.id == 0 && rf.type == RP_FRAME_WRITE_RESPONSE && rf.meta == RP_RESP_EUNMAPPED && rf.plen == 4,
               "C07.classify.write-error-response-with-payload-accepted.reach");
#else
#if defined(MODE_FLIP1) || defined(MODE_FLIP2) || defined(MODE_BURST)
    /* with the first damaged octet fixed by the driver only one of the two checksums can be the one that notices:
     * octets up to 15 (header fields and both checksum words) are covered by the header checksum, which is verified
     * first; from octet 16 on only the payload checksum sees the damage */
#if !defined(VP_KFC_burst_hdcrc_boundary) && (!defined(FIRST_OCTET) || FIRST_OCTET >= 16)
    VP_WITNESS(mf.error.id == EPROTO && ref_is_request(rf.type), "C07.damage.payload-crc-detects.reach");
#endif
#if !defined(FIRST_OCTET) || FIRST_OCTET <= 15
    VP_WITNESS(mf.error.id == EILSEQ, "C07.damage.header-crc-detects.reach");
#endif
#endif
#if defined(MODE_FLIP1) || defined(MODE_TRUNC)
    VP_WITNESS(mf.error.id == EBADMSG, "C07.damage.header-encoding-detects.reach");
#endif
#if defined(MODE_TRUNC) || defined(MODE_EXTEND)
    VP_WITNESS(mf.error.id == EFAULT && ref_is_request(rf.type), "C07.damage.payload-size-detects.reach");
#endif
#endif
}
VP_MAIN_EPILOGUE()
