/* C19: the ring buffer is a bounded FIFO (optionally overwriting) with faithful
 * iterators.
 *
 * Units: include/ufw/ring-buffer.h, include/ufw/ring-buffer-iter.h (macro
 * templates), src/octet-ring.c (the shipped uint8_t instantiation, linked
 * unchanged) and src/ring-buffer-iter.c. With -DC19_U16 the harness
 * instantiates the very same macros for uint16_t in its own TU.
 *
 * Modes (one per instance):
 *  MODE_STEP   one-step induction. Pre-state = ANY state satisfying the
 *              representation invariant RI; one operation on the real code;
 *              abstraction(post) must equal queue-model(abstraction(pre)); RI
 *              must hold again; size/empty/full must report the model.
 *  MODE_ITER   from ANY RI state both iterators are walked the way the
 *              repository's test does and compared with the abstraction.
 *  MODE_REACH  every state admitted by RI (fields AND all slot contents) is
 *              produced by a history of real operations starting at _init();
 *              so RI admits nothing unreachable (no false alarm from an
 *              over-wide pre-state) and _init() establishes RI (base case).
 *  MODE_HIST   black box: _init() then NOPS arbitrary operations, only return
 *              values and iterator output are compared with the queue model
 *              (-DHIST_FIXED_CAP: capacity is the constant CAP, one instance
 *              per capacity; symbolic capacity is too expensive here).
 *              Independent of RI and of the abstraction function (guards
 *              against an error in those harness-side definitions).
 *
 * RI:   1 <= datasize <= CAP, head < datasize, tail <= datasize, data fixed.
 * Abstraction: empty iff tail == datasize; otherwise the slots tail, tail+1,
 *       ... (cyclically) up to but excluding head are the queue, oldest first;
 *       when head == tail that is all datasize slots. Mode = override_if_full.
 */
#include <vp.h>
#include <string.h>

#ifdef C19_U16
#include <ufw/ring-buffer.h>
#include <ufw/ring-buffer-iter.h>
RING_BUFFER_API(u16_ring, uint16_t)
RING_BUFFER_ITER_API(u16_ring, uint16_t)
RING_BUFFER(u16_ring, uint16_t)
RING_BUFFER_ITER(u16_ring, uint16_t)
typedef u16_ring ring_t;
typedef uint16_t elem_t;
#define RB(f) u16_ring_##f
#else
#include <ufw/octet-ring.h>
typedef octet_ring ring_t;
typedef uint8_t elem_t;
#define RB(f) octet_ring_##f
#endif

#ifndef CAP
#define CAP 4
#endif
#define GUARD 2
#define MEMN (GUARD + CAP) /* ring occupies the LAST datasize slots */

/* ---------------------------------------------------------------- model */

struct queue {
    size_t cap;
    size_t len;
    bool overwrite;
    elem_t e[CAP];
};

static void q_put(struct queue *q, elem_t x)
{
    if (q->len == q->cap) {
        if (!q->overwrite)
            return; /* dropped */
        for (size_t i = 0; i + 1 < CAP; ++i) /* evict oldest */
            if (i + 1 < q->len)
                q->e[i] = q->e[i + 1];
        q->len--;
    }
    q->e[q->len++] = x;
}

static elem_t q_get(struct queue *q)
{
    if (q->len == 0)
        return 0;
    elem_t x = q->e[0];
    for (size_t i = 0; i + 1 < CAP; ++i)
        if (i + 1 < q->len)
            q->e[i] = q->e[i + 1];
    q->len--;
    return x;
}

/* ------------------------------------------------ invariant, abstraction */

static bool ri(const ring_t *r, const elem_t *data, size_t cap)
{
    return r->data == data && r->datasize == cap && cap >= 1 && cap <= CAP
           && r->head < cap && r->tail <= cap;
}

/* only called on states satisfying ri() */
static void abstraction(const ring_t *r, struct queue *q)
{
    q->cap = r->datasize;
    q->overwrite = r->override_if_full;
    q->len = 0;
    for (size_t i = 0; i < CAP; ++i)
        q->e[i] = 0;
    if (r->tail == r->datasize)
        return;
    size_t i = r->tail;
    for (size_t k = 0; k < CAP; ++k) {
        q->e[q->len++] = r->data[i];
        i = (i + 1 == r->datasize) ? 0 : i + 1;
        if (i == r->head)
            break;
    }
}

/* the three queries on the real code against a model queue */
#define CHECK_QUERIES(r, q, where)                                              \
    do {                                                                        \
        VP_ASSERT(RB(size)(r) == (q)->len, "C19." where ".size-reports-queue"); \
        VP_ASSERT(RB(empty)(r) == ((q)->len == 0),                              \
                  "C19." where ".empty-reports-queue");                         \
        VP_ASSERT(RB(full)(r) == ((q)->len == (q)->cap),                        \
                  "C19." where ".full-reports-queue");                          \
    } while (0)

static bool q_same(const struct queue *a, const struct queue *b)
{
    if (a->len != b->len || a->cap != b->cap || a->overwrite != b->overwrite)
        return false;
    for (size_t i = 0; i < CAP; ++i)
        if (i < a->len && a->e[i] != b->e[i])
            return false;
    return true;
}

/* Walk an iterator exactly like test/t-ring-buffer.c does; returns number of
 * elements seen (at most CAP + 1, then gives up). */
static size_t walk(const ring_t *r, rb_iter_mode mode, elem_t *seen, bool *done)
{
    rb_iter it;
    size_t k = 0;
    RB(iter)(&it, r, mode);
    for (k = 0; k < CAP + 1; ++k) {
        if (rb_iter_done(&it))
            break;
        seen[k] = RB(inspect)(r, &it);
        rb_iter_advance(&it);
    }
    *done = rb_iter_done(&it);
    return k;
}

#define CHECK_ITERATORS(r, q, where)                                                         \
    do {                                                                                     \
        elem_t seen_[CAP + 1];                                                               \
        bool done_;                                                                          \
        size_t n_ = walk(r, RING_BUFFER_ITER_OLD_TO_NEW, seen_, &done_);                     \
        VP_ASSERT(done_ && n_ == (q)->len, "C19." where ".old-to-new-exactly-size-steps");   \
        for (size_t i_ = 0; i_ < CAP; ++i_)                                                  \
            if (i_ < (q)->len && i_ < n_)                                                    \
                VP_ASSERT(seen_[i_] == (q)->e[i_], "C19." where ".old-to-new-insertion-order"); \
        n_ = walk(r, RING_BUFFER_ITER_NEW_TO_OLD, seen_, &done_);                            \
        VP_ASSERT(done_ && n_ == (q)->len, "C19." where ".new-to-old-exactly-size-steps");   \
        for (size_t i_ = 0; i_ < CAP; ++i_)                                                  \
            if (i_ < (q)->len && i_ < n_)                                                    \
                VP_ASSERT(seen_[i_] == (q)->e[(q)->len - 1 - i_],                            \
                          "C19." where ".new-to-old-reversed");                              \
    } while (0)

/* ================================================================ STEP */
#if defined(MODE_STEP) || defined(MODE_ITER)

struct vp_in {
    uint8_t cap, head, tail, ovr;
    elem_t mem[MEMN];
    uint8_t op;
    elem_t item;
    uint8_t flag;
    uint8_t icap; /* capacity handed to _init */
};
VP_DECLARE_INPUT();

void harness(void)
{
    VP_INPUT(in);
    VP_ASSUME(in.cap >= 1 && in.cap <= CAP);
    VP_ASSUME(in.head < in.cap && in.tail <= in.cap);
    VP_ASSUME(in.ovr <= 1 && in.flag <= 1);
    VP_ASSUME(in.icap >= 1 && in.icap <= CAP);

    elem_t mem[MEMN], old[MEMN];
    for (size_t i = 0; i < MEMN; ++i)
        old[i] = mem[i] = in.mem[i];

    size_t cap = in.cap;
    elem_t *data = mem + (MEMN - cap);
    ring_t r = { .data = data, .head = in.head, .tail = in.tail, .datasize = cap,
                 .override_if_full = (in.ovr != 0) };
    const size_t head = in.head, tail = in.tail;

    struct queue q, post;
    abstraction(&r, &q);
    const size_t len = q.len;
    /* the abstraction of an RI state is a queue of at most capacity elements */
    VP_ASSERT(q.len <= cap && (q.len == 0) == (tail == cap), "C19.abstraction.bounded");

#ifdef MODE_STEP
    switch (in.op) {
    case 0: { /* put */
        const bool was_full = (len == cap);
        q_put(&q, in.item);
        RB(put)(&r, in.item);
        VP_WITNESS(!was_full && head == cap - 1 && cap == CAP && len >= 1, "C19.put.wrap-head.reach");
        VP_WITNESS(len == 0 && head > 0, "C19.put.into-empty.reach");
        VP_WITNESS(was_full && !q.overwrite && cap >= 2, "C19.put.full-dropped.reach");
        VP_WITNESS(was_full && q.overwrite && cap == CAP && tail == cap - 1 && CAP >= 2,
                   "C19.put.full-evict-wrap-tail.reach");
        VP_WITNESS(was_full && q.overwrite && cap == 1, "C19.put.cap1-evict.reach");
        VP_WITNESS(len == cap - 1 && cap >= 2, "C19.put.becomes-full.reach");
        break;
    }
    case 1: { /* get */
        elem_t want = q_get(&q);
        elem_t got = RB(get)(&r);
        VP_ASSERT(got == want, "C19.get.returns-oldest-or-zero");
        VP_WITNESS(len == 0 && data[0] != 0, "C19.get.empty-zero.reach");
        VP_WITNESS(len == 1 && cap >= 2 && got != 0, "C19.get.last-element.reach");
        VP_WITNESS(len >= 2 && tail == cap - 1 && cap == CAP, "C19.get.wrap-tail.reach");
        VP_WITNESS(len == cap && cap >= 2, "C19.get.from-full.reach");
        break;
    }
    case 2: /* clear */
        q.len = 0;
        RB(clear)(&r);
        VP_WITNESS(len == cap && cap >= 2, "C19.clear.full.reach");
        VP_WITNESS(len >= 1 && head != 0, "C19.clear.nonzero-head.reach");
        break;
    case 3: /* override mode change */
        q.overwrite = (in.flag != 0);
        RB(override_if_full)(&r, in.flag != 0);
        VP_WITNESS(in.ovr != in.flag && len == cap, "C19.override.change.reach");
        break;
    case 4: /* queries only */
        VP_WITNESS(len >= 2 && len < cap && tail > head, "C19.query.wrapped.reach");
        break;
    default: { /* (re-)initialisation: base case of the induction */
        cap = in.icap;
        data = mem + (MEMN - cap);
        RB(init)(&r, data, cap);
        q.cap = cap;
        q.len = 0;
        /* the property does not say which mode a fresh buffer is in */
        q.overwrite = r.override_if_full;
        VP_WITNESS(cap == CAP && len > 0, "C19.init.reach");
        VP_WITNESS(cap == 1, "C19.init.cap1.reach");
        break;
    }
    }

    /* RI is inductive */
    VP_ASSERT(ri(&r, data, cap), "C19.step.invariant-preserved");
    if (ri(&r, data, cap)) {
        abstraction(&r, &post);
        VP_ASSERT(post.len == q.len, "C19.step.queue-length-as-model");
        VP_ASSERT(post.overwrite == q.overwrite, "C19.step.mode-as-model");
        VP_ASSERT(q_same(&post, &q), "C19.step.queue-content-as-model");
    }
    VP_ASSERT(q.len <= q.cap, "C19.step.at-most-capacity");
    CHECK_QUERIES(&r, &q, "step");
    /* nothing outside the data[0..datasize) the caller handed over is written */
    for (size_t i = 0; i < MEMN; ++i)
        if (i < MEMN - cap)
            VP_ASSERT(mem[i] == old[i], "C19.step.nothing-written-outside-storage");
#else /* MODE_ITER */
    CHECK_ITERATORS(&r, &q, "iter");
    /* iterating does not disturb the buffer */
    abstraction(&r, &post);
    VP_ASSERT(ri(&r, data, cap) && q_same(&post, &q), "C19.iter.buffer-untouched");
    for (size_t i = 0; i < MEMN; ++i)
        VP_ASSERT(mem[i] == old[i], "C19.iter.storage-untouched");
    VP_WITNESS(len == 0 && head != 0, "C19.iter.empty.reach");
    VP_WITNESS(len == cap && cap == CAP && head != 0, "C19.iter.full-wrapped.reach");
    VP_WITNESS(len >= 2 && len < cap && tail > head && head > 0, "C19.iter.partial-wrapped.reach");
    VP_WITNESS(len >= 2 && head == 0, "C19.iter.head-zero.reach");
    VP_WITNESS(cap == 1 && len == 1, "C19.iter.cap1.reach");
#endif
}
#endif /* MODE_STEP || MODE_ITER */

/* =============================================================== REACH */
#ifdef MODE_REACH

struct vp_in {
    uint8_t cap, head, tail, ovr;
    elem_t slot[CAP]; /* target contents of ALL slots, queued or stale */
};
VP_DECLARE_INPUT();

void harness(void)
{
    VP_INPUT(in);
    /* the target: any state RI admits */
    VP_ASSUME(in.cap >= 1 && in.cap <= CAP);
    VP_ASSUME(in.head < in.cap && in.tail <= in.cap);
    VP_ASSUME(in.ovr <= 1);

    const size_t cap = in.cap, H = in.head, T = in.tail;
    elem_t mem[MEMN];
    for (size_t i = 0; i < MEMN; ++i)
        mem[i] = 0x5a;
    elem_t *data = mem + (MEMN - cap);
    ring_t r;

    RB(init)(&r, data, cap);
    VP_ASSERT(ri(&r, data, cap), "C19.reach.init-establishes-invariant");
    VP_ASSERT(RB(empty)(&r) && RB(size)(&r) == 0, "C19.reach.init-gives-empty-queue");

    /* 1. deposit the target contents in every slot, then drain */
    for (size_t i = 0; i < CAP; ++i)
        if (i < cap)
            RB(put)(&r, in.slot[i]);
    for (size_t i = 0; i < CAP; ++i)
        if (i < cap)
            (void)RB(get)(&r);
    /* 2. move the write position to the slot that shall hold the oldest
     *    element (or to H for an empty target) */
    const size_t first = (T == cap) ? H : T;
    for (size_t i = 0; i < CAP; ++i)
        if (i < first) {
            RB(put)(&r, in.slot[i]);
            (void)RB(get)(&r);
        }
    /* 3. queue the target's elements */
    if (T != cap) {
        size_t i = T;
        for (size_t k = 0; k < CAP; ++k) {
            RB(put)(&r, in.slot[i]);
            i = (i + 1 == cap) ? 0 : i + 1;
            if (i == H)
                break;
        }
    }
    RB(override_if_full)(&r, in.ovr != 0);

    VP_ASSERT(r.data == data && r.datasize == cap && r.head == H && r.tail == T
                  && r.override_if_full == (in.ovr != 0),
              "C19.reach.every-invariant-state-is-reachable");
    for (size_t i = 0; i < CAP; ++i)
        if (i < cap)
            VP_ASSERT(data[i] == in.slot[i], "C19.reach.every-slot-content-is-reachable");
    VP_WITNESS(T == cap && H == cap - 1 && cap == CAP, "C19.reach.empty-high-head.reach");
    VP_WITNESS(T == H && H == cap - 1 && cap == CAP, "C19.reach.full-wrapped.reach");
    VP_WITNESS(T != cap && T > H && H > 0, "C19.reach.partial-wrapped.reach");
    VP_WITNESS(cap == 1 && T == 0, "C19.reach.cap1-full.reach");
}
#endif /* MODE_REACH */

/* ================================================================ HIST */
#ifdef MODE_HIST
#ifndef NOPS
#define NOPS 8
#endif

struct vp_in {
    uint8_t cap;
    uint8_t op[NOPS];
    elem_t item[NOPS];
    uint8_t junk;
    uint8_t stale[4]; /* what the instance object held before _init (earlier use, stack garbage) */
};
VP_DECLARE_INPUT();

void harness(void)
{
    VP_INPUT(in);
#ifdef HIST_FIXED_CAP /* capacity is the compile-time constant CAP */
    const size_t cap = CAP;
#else
    VP_ASSUME(in.cap >= 1 && in.cap <= CAP);
    const size_t cap = in.cap;
#endif
    elem_t mem[MEMN];
    for (size_t i = 0; i < MEMN; ++i)
        mem[i] = in.junk;
    elem_t *data = mem + (MEMN - cap);
    ring_t r;
    r.data = NULL;
    r.head = in.stale[0];
    r.tail = in.stale[1];
    r.datasize = in.stale[2];
    r.override_if_full = (in.stale[3] & 1) != 0;
    struct queue q;
    unsigned wraps = 0, evictions = 0, drops = 0, clears_then_put = 0;
    bool cleared = false;

    RB(init)(&r, data, cap);
    q.cap = cap;
    q.len = 0;
    q.overwrite = false;
    for (size_t i = 0; i < CAP; ++i)
        q.e[i] = 0;
    /* a history without override-mode change has not entered override mode:
     * a fresh buffer drops on full, whatever the object held before _init */
    CHECK_QUERIES(&r, &q, "hist.fresh");

    unsigned puts = 0;
    for (size_t s = 0; s < NOPS; ++s) {
        switch (in.op[s] & 7) {
        case 0:
        case 1:
        case 2: /* put (weighted) */
            if (q.len == q.cap) {
                if (q.overwrite)
                    evictions++;
                else
                    drops++;
            }
            if (q.len < q.cap || q.overwrite)
                puts++; /* stored */
            if (cleared && q.len == 0)
                clears_then_put++;
            q_put(&q, in.item[s]);
            RB(put)(&r, in.item[s]);
            if (puts > cap)
                wraps++;
            break;
        case 3:
        case 4: {
            elem_t want = q_get(&q);
            elem_t got = RB(get)(&r);
            VP_ASSERT(got == want, "C19.hist.get-returns-oldest-or-zero");
            break;
        }
        case 5:
            if (q.len > 0)
                cleared = true;
            q.len = 0;
            RB(clear)(&r);
            break;
        case 6:
            q.overwrite = true;
            RB(override_if_full)(&r, true);
            break;
        default:
            q.overwrite = false;
            RB(override_if_full)(&r, false);
            break;
        }
        CHECK_QUERIES(&r, &q, "hist");
    }
    CHECK_ITERATORS(&r, &q, "hist");
    for (size_t i = 0; i < MEMN; ++i)
        if (i < MEMN - cap)
            VP_ASSERT(mem[i] == in.junk, "C19.hist.nothing-written-outside-storage");

    VP_WITNESS(cap == CAP && evictions >= 2 && q.len == cap, "C19.hist.evictions.reach");
    VP_WITNESS(cap == CAP && drops >= 1 && wraps >= 1 && (q.len >= 2 || cap == 1), "C19.hist.drop-and-wrap.reach");
    VP_WITNESS(clears_then_put >= 1 && (q.len >= 2 || cap == 1), "C19.hist.clear-then-reuse.reach");
#ifndef HIST_FIXED_CAP
    VP_WITNESS(cap == 1 && evictions >= 1 && drops >= 1, "C19.hist.cap1.reach");
#endif
}
#endif /* MODE_HIST */

VP_MAIN_EPILOGUE()
