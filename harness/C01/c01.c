/* C01: typed register set/get is lossless and constraint-enforcing.
 * Unit: src/registers/core.c (#include'd), include/ufw/binary-format.h.
 * Everything about the table (register types, addresses, constraint kinds and
 * bounds, byte order, memory- or callback-backed areas) is symbolic; the real
 * register_init must accept it. Memory is then overwritten with arbitrary
 * words, and ONE typed set (checked or unchecked) with an arbitrary handle,
 * value type and all 64 value bits is executed and compared with the reference
 * model of regs_common.h. */
#include "../regs/regs_common.h"

struct vp_in {
    struct vp_table t;
    RegisterAtom mem[NAREA][AWORDS];
    uint32_t idx;
    uint8_t vtype; /* 0..8 (8 = REG_TYPE_INVALID) */
    uint64_t vbits;
    uint8_t unsafe;
};
VP_DECLARE_INPUT();

static void family(const struct vp_in *in)
{
    VP_ASSUME(vp_desc_wellformed(&in->t));
    VP_ASSUME(in->t.nareas >= 1);
    for (unsigned i = 0; i < NAREA; ++i) {
        VP_ASSUME(in->t.a[i].base <= VP_ADDR_LIMIT); /* no 2^32 wrap (outside the claim) */
        VP_ASSUME(in->t.a[i].has_read == 1);       /* typed get needs a read path */
    }
    for (unsigned i = 0; i < NREG; ++i)
        VP_ASSUME(in->t.e[i].address <= VP_ADDR_LIMIT);
    VP_ASSUME(in->vtype <= REG_TYPE_INVALID);
    VP_ASSUME(in->unsafe <= 1);
#ifdef TTYPE
    /* the driver enumerates the addressed register's type (one query per type) */
    if (in->idx < in->t.nentries)
        VP_ASSUME(in->idx < NREG && in->t.e[in->idx].type == TTYPE);
#endif
}

void harness(void)
{
    VP_INPUT(in);
    family(&in);
#ifdef VIA_INIT
    vp_build(&in.t);
    RegisterInit ri = register_init(&vp_t);
    VP_ASSUME(ri.code == REG_INIT_SUCCESS);
#else
    VP_ASSUME(ref_layout_ok(&in.t));
    vp_link_direct(&in.t);
#endif
    /* arbitrary current contents (not "just initialised") */
    memcpy(vp_mem, in.mem, sizeof vp_mem);
    struct vp_snapshot before;
    vp_snap(&before);

    const struct vp_table *d = &in.t;
    const bool be = d->bigendian;

#if defined(MODE_SET)
    RegisterValue v = vp_value(in.vtype, in.vbits);
    RegisterAccess r = in.unsafe ? register_set_unsafe(&vp_t, in.idx, v)
                                 : register_set(&vp_t, in.idx, v);
    if (in.idx >= d->nentries) {
        VP_ASSERT(r.code == REG_ACCESS_NOENTRY, "C01.set.bad-handle-noentry");
        VP_ASSERT(vp_mem_equal(&before), "C01.set.bad-handle-no-change");
        VP_WITNESS(in.idx == d->nentries && in.unsafe, "C01.set.one-past-end-unsafe.reach");
        VP_WITNESS(in.idx == d->nentries && !in.unsafe && in.vtype == REG_TYPE_INVALID,
                   "C01.set.one-past-end-checked.reach");
        return;
    }
    const struct vp_entry *e = &d->e[in.idx];
    const int ai = ref_area_of(d, e->address);
    const uint64_t bits = in.vbits & ref_mask(e->type);
    const bool typed = (in.vtype == e->type);
    const bool fok = ref_float_ok(bits, e->type);
    const bool cok = ref_constraint(d, e, bits, false);
    const bool canw = d->a[ai].has_write;
    const unsigned off = e->address - d->a[ai].base;
    const unsigned sz = ref_size(e->type);

    if (typed) {
        bool expect = fok && canw && (in.unsafe || cok);
        VP_ASSERT((r.code == REG_ACCESS_SUCCESS) == expect, "C01.set.accepted-iff-reference");
    } else if (!in.unsafe) {
        VP_ASSERT(r.code != REG_ACCESS_SUCCESS, "C01.set.type-mismatch-refused");
    }
    if (r.code == REG_ACCESS_SUCCESS && typed) {
        /* the backing words hold exactly the value in the table's byte order */
        for (unsigned k = 0; k < 8; ++k)
            if (k < 2 * sz)
                VP_ASSERT(vp_mem_octet((unsigned)ai, 2 * off + k) == ref_octet(bits, e->type, be, k),
                          "C01.set.backing-octets");
        RegisterValue g;
        RegisterAccess rg = register_get(&vp_t, in.idx, &g);
        VP_ASSERT(rg.code == REG_ACCESS_SUCCESS, "C01.setget.get-succeeds");
        VP_ASSERT(g.type == (RegisterType)e->type, "C01.setget.type");
        VP_ASSERT(vp_value_bits(g) == bits, "C01.setget.identical-value");
    }
    if (r.code != REG_ACCESS_SUCCESS) {
        VP_ASSERT(vp_mem_equal(&before), "C01.set.refused-no-change");
    }
    /* in every case: nothing but the register's own words may change */
    for (unsigned a = 0; a < NAREA; ++a)
        for (unsigned w = 0; w < AWORDS; ++w)
            if (!((int)a == ai && w >= off && w < off + sz))
                VP_ASSERT(vp_mem[a][w] == before.mem[a][w], "C01.set.frame");

    VP_WITNESS(r.code == REG_ACCESS_SUCCESS && typed && be && d->a[ai].custom &&
                   e->check == REGV_TYPE_RANGE && !in.unsafe,
               "C01.set.be-custom-range-accepted.reach");
    VP_WITNESS(r.code == REG_ACCESS_SUCCESS && typed && !be && !d->a[ai].custom &&
                   e->check == REGV_TYPE_CALLBACK && !in.unsafe && in.idx == 1,
               "C01.set.le-mem-callback-accepted.reach");
    VP_WITNESS(r.code != REG_ACCESS_SUCCESS && typed && !in.unsafe && e->check == REGV_TYPE_MAX && canw,
               "C01.set.max-refused.reach");
#if !defined(TTYPE) || TTYPE >= 6
    VP_WITNESS(r.code != REG_ACCESS_SUCCESS && typed && in.unsafe && canw, "C01.set.unsafe-nonfinite-refused.reach");
#endif
    VP_WITNESS(r.code == REG_ACCESS_SUCCESS && typed && in.unsafe && !cok, "C01.set.unsafe-skips-constraint.reach");
#elif defined(MODE_GET)
    RegisterValue g;
    RegisterAccess rg = register_get(&vp_t, in.idx, &g);
    if (in.idx >= d->nentries) {
        VP_ASSERT(rg.code == REG_ACCESS_NOENTRY, "C01.get.bad-handle-noentry");
        VP_WITNESS(in.idx == d->nentries, "C01.get.one-past-end.reach");
        return;
    }
    const struct vp_entry *e = &d->e[in.idx];
    uint8_t o[8];
    ref_entry_octets(d, e, o);
    uint64_t bits = ref_decode(o, e->type, be);
    if (ref_float_ok(bits, e->type)) {
        VP_ASSERT(rg.code == REG_ACCESS_SUCCESS, "C01.get.succeeds");
        VP_ASSERT(g.type == (RegisterType)e->type, "C01.get.type");
        VP_ASSERT(vp_value_bits(g) == bits, "C01.get.value-is-stored-octets");
    }
    VP_ASSERT(vp_mem_equal(&before), "C01.get.no-change");
    VP_WITNESS(rg.code == REG_ACCESS_SUCCESS && be && in.idx == 1, "C01.get.be.reach");
    VP_WITNESS(rg.code == REG_ACCESS_SUCCESS && !be && d->a[ref_area_of(d, e->address)].custom, "C01.get.le-custom.reach");
#else
#error "no MODE"
#endif
}
VP_MAIN_EPILOGUE()
