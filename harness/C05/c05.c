/* C05: register constraints are an invariant of every checked-operation history.
 * Unit: src/registers/core.c (#include'd).
 * One-step induction: the pre-state is ANY memory image in which every
 * register constrained by min/max/range/callback decodes and satisfies its
 * constraint (Inv); one checked operation with arbitrary operands is executed;
 * Inv must hold afterwards and a refused operation must change nothing.
 * register_init establishes Inv (C04: defaults of default-loading areas are
 * acceptable and loaded, everything else zero ... see DESIGN.md C05 for the
 * zero-image caveat), so Inv holds along every history of checked operations.
 * Geometry is enumerated by the driver (see regs_common.h). */
#include "../regs/regs_common.h"

#ifndef NMAX
#define NMAX 5
#endif

struct vp_in {
    struct vp_table t;
    RegisterAtom mem[NAREA][AWORDS];
    uint8_t touched[NREG];
    /* typed operations */
    uint32_t idx;
    uint8_t vtype;
    uint64_t vbits;
    /* block write */
    uint32_t addr;
    uint8_t n;
    RegisterAtom buf[NMAX];
};
VP_DECLARE_INPUT();

static bool constrained(const struct vp_entry *e)
{
    return e->check == REGV_TYPE_MIN || e->check == REGV_TYPE_MAX || e->check == REGV_TYPE_RANGE ||
           e->check == REGV_TYPE_CALLBACK;
}

static uint64_t cur_bits(const struct vp_table *d, const struct vp_entry *e)
{
    uint8_t o[8];
    ref_entry_octets(d, e, o);
    return ref_decode(o, e->type, d->bigendian);
}

/* Inv over the CURRENT memory */
static bool inv_holds(const struct vp_table *d)
{
    for (unsigned j = 0; j < NREG; ++j) {
        if (j >= d->nentries)
            break;
        const struct vp_entry *e = &d->e[j];
        if (!constrained(e))
            continue;
        uint64_t b = cur_bits(d, e);
        if (!ref_float_ok(b, e->type) || !ref_constraint(d, e, b, false))
            return false;
    }
    return true;
}

void harness(void)
{
    VP_INPUT(in);
#ifdef GA_N
    vp_apply_geometry(&in.t);
#endif
    const struct vp_table *d = &in.t;
    VP_ASSUME(vp_desc_wellformed(d));
    for (unsigned i = 0; i < NAREA; ++i) {
        VP_ASSUME(d->a[i].base <= VP_ADDR_LIMIT);
        VP_ASSUME(d->a[i].has_read == 1);
        if (i < d->nareas)
            VP_ASSUME(d->a[i].size >= 1);
    }
    for (unsigned i = 0; i < NREG; ++i) {
        VP_ASSUME(d->e[i].address <= VP_ADDR_LIMIT);
        VP_ASSUME(in.touched[i] <= 1);
    }
    VP_ASSUME(ref_layout_ok(d));
#ifdef GA_N
    VP_ASSUME(vp_geometry_types_ok(d));
#endif
    vp_link_direct(d);
    for (unsigned a = 0; a < NAREA; ++a)
        for (unsigned w = 0; w < AWORDS; ++w)
            vp_mem[a][w] = in.mem[a][w];
    for (unsigned i = 0; i < NREG; ++i)
        vp_entries[i].flags = in.touched[i] ? REG_EF_TOUCHED : 0;

#if defined(OP_SANITISEANY)
    /* Obligation of the induction itself: C01/C03/C05 assume a table whose
     * flag word is INITIALISED [| BIG_ENDIAN]; every operation - also a
     * sanitise run that aborts (unacceptable default, unwritable area) - must
     * hand the table back in that state. No assumption on defaults,
     * constraint kinds or write access here; nothing else is asserted. */
    const uint16_t tflags = vp_t.flags;
    RegisterAccess ra = register_sanitise(&vp_t);
    VP_ASSERT(vp_t.flags == tflags, "C05.sanitise.table-flags-preserved-also-when-aborted");
#if GR_N >= 1
    VP_WITNESS(ra.code != REG_ACCESS_SUCCESS, "C05.sanitiseany.aborted.reach");
#endif
    VP_WITNESS(ra.code == REG_ACCESS_SUCCESS, "C05.sanitiseany.completed.reach");
    return;
#elif defined(OP_SANITISE)
    /* sanitise part of the property: tables whose registers use
     * no/min/max/range/callback constraints; arbitrary corruption (no Inv).
     * Defaults are acceptable to their registers and every area can be
     * written through its callback (what register_init established when it
     * loaded them; skip-defaults / callback-less areas are outside). */
    for (unsigned j = 0; j < NREG; ++j) {
        if (j >= d->nentries)
            break;
        VP_ASSUME(d->e[j].check != REGV_TYPE_FAIL);
        VP_ASSUME(ref_value_ok(d, &d->e[j], d->e[j].def & ref_mask(d->e[j].type), false));
    }
    for (unsigned a = 0; a < NAREA; ++a)
        if (a < d->nareas)
            VP_ASSUME(d->a[a].has_write == 1);
    struct vp_snapshot before;
    vp_snap(&before);
    bool was_ok[NREG];
    uint64_t was[NREG];
    for (unsigned j = 0; j < NREG; ++j) {
        was[j] = 0;
        was_ok[j] = true;
        if (j < d->nentries) {
            was[j] = cur_bits(d, &d->e[j]);
            was_ok[j] = ref_float_ok(was[j], d->e[j].type) && ref_constraint(d, &d->e[j], was[j], false);
        }
    }
    const uint16_t tflags = vp_t.flags;
    RegisterAccess r = register_sanitise(&vp_t);
    VP_ASSERT(r.code == REG_ACCESS_SUCCESS, "C05.sanitise.succeeds");
    VP_ASSERT(vp_t.flags == tflags, "C05.sanitise.table-flags-preserved");
    bool any_reset = false;
    for (unsigned j = 0; j < NREG; ++j) {
        if (j >= d->nentries)
            break;
        uint64_t now = cur_bits(d, &d->e[j]);
        if (was_ok[j]) {
            VP_ASSERT(now == was[j], "C05.sanitise.sane-registers-keep-their-value");
        } else {
            VP_ASSERT(now == (d->e[j].def & ref_mask(d->e[j].type)), "C05.sanitise.insane-registers-reset-to-default");
            any_reset = true;
        }
        VP_ASSERT((vp_entries[j].flags & REG_EF_TOUCHED) == 0, "C05.sanitise.touched-marks-cleared");
    }
    VP_ASSERT(inv_holds(d), "C05.sanitise.re-establishes-invariant");
    /* words not belonging to any register are untouched */
    for (unsigned a = 0; a < NAREA; ++a)
        for (unsigned w = 0; w < AWORDS; ++w) {
            bool in_reg = false;
            if (a < d->nareas && w < d->a[a].size)
                for (unsigned j = 0; j < NREG; ++j)
                    if (j < d->nentries && (uint32_t)(d->a[a].base + w - d->e[j].address) < ref_size(d->e[j].type))
                        in_reg = true;
            if (!in_reg)
                VP_ASSERT(vp_mem[a][w] == before.mem[a][w], "C05.sanitise.frame");
        }
#if GR_N >= 2
    VP_WITNESS(any_reset && !was_ok[0] && was_ok[1] && in.touched[1], "C05.sanitise.first-reset-second-kept.reach");
    VP_WITNESS(!was_ok[GR_N - 1] && !ref_float_ok(was[GR_N - 1], d->e[GR_N - 1].type) == false &&
                   d->e[GR_N - 1].check == REGV_TYPE_RANGE,
               "C05.sanitise.last-out-of-range.reach");
#endif
#if GR_N >= 1 && defined(W_MULTI)
    VP_WITNESS(any_reset && d->bigendian, "C05.sanitise.nondecoding-or-violating-bigendian.reach");
#endif
#if GR_N == 0
    VP_WITNESS(r.code == REG_ACCESS_SUCCESS, "C05.sanitise.empty-table.reach");
#endif
    return;
#else
    /* ---------------- one step from Inv */
    VP_ASSUME(inv_holds(d));
    struct vp_snapshot before;
    vp_snap(&before);
    const uint16_t tflags = vp_t.flags;
    RegisterAccess r;
    bool typed_op = true;
#if defined(OP_SET)
    VP_ASSUME(in.vtype <= REG_TYPE_INVALID);
    RegisterValue v = vp_value(in.vtype, in.vbits);
    r = register_set(&vp_t, in.idx, v);
#elif defined(OP_BITSET) || defined(OP_BITCLEAR)
    VP_ASSUME(in.vtype <= REG_TYPE_INVALID);
    RegisterValue v = vp_value(in.vtype, in.vbits);
#if defined(OP_BITSET)
    r = register_bit_set(&vp_t, in.idx, v);
#else
    r = register_bit_clear(&vp_t, in.idx, v);
#endif
    if (in.idx < d->nentries) {
        const struct vp_entry *e = &d->e[in.idx];
        const int ai = ref_area_of(d, e->address);
        const unsigned off = e->address - d->a[ai].base;
        const uint64_t m = in.vbits & ref_mask(e->type);
        uint8_t o[8];
        for (unsigned k = 0; k < 8; ++k)
            o[k] = (k < 2 * ref_size(e->type)) ? ((const uint8_t *)before.mem[ai])[2 * off + k] : 0;
        const uint64_t old = ref_decode(o, e->type, d->bigendian);
        const bool is_unsigned = e->type == REG_TYPE_UINT16 || e->type == REG_TYPE_UINT32 || e->type == REG_TYPE_UINT64;
        if (!is_unsigned || in.vtype != e->type) {
            VP_ASSERT(r.code != REG_ACCESS_SUCCESS, "C05.bitop.refuses-signed-float-mismatch");
        } else {
#if defined(OP_BITSET)
            const uint64_t want = old | m;
#else
            const uint64_t want = old & ~m;
#endif
            bool expect = ref_constraint(d, e, want, false) && d->a[ai].has_write;
            VP_ASSERT((r.code == REG_ACCESS_SUCCESS) == expect, "C05.bitop.accepted-iff-result-satisfies-constraint");
            if (r.code == REG_ACCESS_SUCCESS)
                VP_ASSERT(cur_bits(d, e) == want, "C05.bitop.changes-exactly-the-requested-bits");
#if !defined(GR_N) || GR_N >= 1
            VP_WITNESS(r.code == REG_ACCESS_SUCCESS && want != old && e->check == REGV_TYPE_MAX,
                       "C05.bitop.accepted-under-max.reach");
            VP_WITNESS(r.code != REG_ACCESS_SUCCESS && expect == false && d->a[ai].has_write,
                       "C05.bitop.refused-by-constraint.reach");
#endif
        }
        /* only this register's words may change */
        for (unsigned a = 0; a < NAREA; ++a)
            for (unsigned w = 0; w < AWORDS; ++w)
                if (!((int)a == ai && w >= off && w < off + ref_size(e->type)))
                    VP_ASSERT(vp_mem[a][w] == before.mem[a][w], "C05.bitop.frame");
    }
#elif defined(OP_BLOCKWRITE)
    typed_op = false;
    VP_ASSUME(in.n <= NMAX);
#ifdef VP_REPLAY
    RegisterAtom *blk = malloc(in.n ? in.n * sizeof(RegisterAtom) : 1);
    memcpy(blk, in.buf + (NMAX - in.n), in.n * sizeof(RegisterAtom));
#else
    RegisterAtom arr[NMAX];
    for (unsigned i = 0; i < NMAX; ++i)
        arr[i] = in.buf[i];
    RegisterAtom *blk = arr + (NMAX - in.n);
#endif
    r = register_block_write(&vp_t, in.addr, in.n, blk);
#else
#error "no OP"
#endif
    (void)typed_op;
    VP_ASSERT(inv_holds(d), "C05.step.invariant-preserved");
    VP_ASSERT(vp_t.flags == tflags, "C05.step.table-flags-preserved");
    if (r.code != REG_ACCESS_SUCCESS) {
        VP_ASSERT(vp_mem_equal(&before), "C05.step.refused-leaves-storage-unchanged");
    }
#if GR_N >= 1
    VP_WITNESS(r.code == REG_ACCESS_SUCCESS && !vp_mem_equal(&before) && constrained(&d->e[0]) &&
                   cur_bits(d, &d->e[0]) != 0,
               "C05.step.accepted-and-changed.reach");
    VP_WITNESS(r.code == REG_ACCESS_RANGE, "C05.step.refused-range.reach");
#else
    VP_WITNESS(r.code != REG_ACCESS_SUCCESS, "C05.step.no-registers-refused.reach");
#endif
#if defined(OP_BLOCKWRITE) && defined(VP_REPLAY)
    free(blk);
#endif
#endif
}
VP_MAIN_EPILOGUE()
