/* C10: persistent store/validate/fetch round-trips and stays inside its region.
 * Units: src/persistent-storage.c, src/crc-16-arc.c (linked unchanged).
 * See c10_common.h for the medium model, the checksum kinds and the scenario
 * structure. The initial medium content is arbitrary in every mode, so each
 * mode is a step from any history of the medium.
 *
 * MODE_ROUNDTRIP  full store -> validate -> fetch -> one octet of the region
 *                 altered -> validate by a fresh instance
 * MODE_PART       store_part with full 64-bit (offset, length) -> validate -> fetch
 * MODE_FETCHPART  fetch_part with full 64-bit (offset, length)
 * MODE_RESET      persistent_reset
 */
#define PROP "C10"
#include "c10_common.h"

struct vp_in {
    struct c10_cfg cfg;
    struct c10_states sta, stb;
    uint8_t medium[MSIZE];
    uint8_t image[N];
    uint8_t dst[GUARD + N + GUARD];
    uint64_t off, len; /* store_part / fetch_part */
    uint8_t alt_pos, alt_val;
    uint8_t item;
    /* an instance object may have been used before (or never initialised): its prior
     * octets are arbitrary input, so that state left behind by an earlier life is
     * both considered by the solver and reproducible in the replay (seed C10-E) */
    uint8_t stale[sizeof(PersistentStorage)];
};
VP_DECLARE_INPUT();

#define DSTSZ (GUARD + N + GUARD)

/* everything except dst[GUARD .. GUARD+n) unchanged */
static bool dst_guards_same(const uint8_t *dst, const uint8_t *before, size_t n)
{
    bool same = true;
    for (size_t i = 0; i < DSTSZ; ++i)
        if ((i < GUARD || i >= GUARD + n) && dst[i] != before[i])
            same = false;
    return same;
}

static void scenario(const struct vp_in *in, uint8_t kind, uint8_t aux)
{
    struct c10_cfg cfg = in->cfg;
    if (!c10_begin(&cfg, kind, aux, in->medium))
        return;

    PersistentStorage s;
    c10_set_stale(in->stale);
    c10_instance(&s, &cfg);

    uint8_t dst[DSTSZ];
    for (size_t i = 0; i < DSTSZ; ++i)
        dst[i] = in->dst[i];
    uint8_t img[N];
    for (size_t i = 0; i < N; ++i)
        img[i] = in->image[i];

#if defined(MODE_ROUNDTRIP)
    c10_current(&cfg, img, &in->sta);
    const uint32_t ref = c10_ref(&cfg, img);
    PersistentAccess rc = persistent_store(&s, img);
    const bool stored_ok = (rc == PERSISTENT_ACCESS_SUCCESS);
    VP_ASSERT(stored_ok, "C10.store.succeeds");
    VP_ASSERT(c10_data_is(img), "C10.store.data-on-medium-is-image");
    VP_ASSERT(c10_stored() == ref, "C10.store.checksum-on-medium-is-algorithm-of-image");
    VP_ASSERT(c10_outside_same(in->medium), "C10.store.nothing-outside-region");

    rc = persistent_validate(&s);
    VP_ASSERT(rc == PERSISTENT_ACCESS_SUCCESS, "C10.validate-after-store.succeeds");

    rc = persistent_fetch(dst + GUARD, &s);
    VP_ASSERT(rc == PERSISTENT_ACCESS_SUCCESS, "C10.fetch-after-store.succeeds");
    VP_ASSERT(c10_same(dst + GUARD, img), "C10.fetch-after-store.returns-image");
    VP_ASSERT(dst_guards_same(dst, in->dst, N), "C10.fetch.writes-only-n-octets");
    VP_ASSERT(c10_data_is(img) && c10_stored() == ref && c10_outside_same(in->medium),
              "C10.validate-fetch.leave-medium");
    VP_WITNESS(rc == PERSISTENT_ACCESS_SUCCESS && cfg.base == 0xfffffff0u && cfg.order == 0 && !a_lost &&
                   m_reads >= 3,
               "C10.roundtrip.high-placement.reach");

    /* --- one octet of the stored region (checksum or data) is altered --- */
    if (!stored_ok) /* the clause is about the state after a successful store */
        return;
    if (in->alt_pos >= m_cs + N || in->alt_val == M[GUARD + in->alt_pos])
        return;
    M[GUARD + in->alt_pos] = in->alt_val;
    uint8_t img2[N];
    c10_get_data(img2);
    struct c10_states st2 = in->stb;
    if (in->alt_pos >= m_cs) {
        /* a data octet changed: the altered image has its own states, equal to
         * the original ones as far as the two images share a prefix */
        const size_t j = in->alt_pos - m_cs;
        for (size_t k = 0; k < N; ++k)
            if (k < j)
                st2.st[k] = in->sta.st[k];
        c10_current(&cfg, img2, &st2);
    }
    const bool distinguishes = (c10_stored() != ref) || (c10_ref(&cfg, img2) != ref);
    PersistentStorage t; /* validation by a fresh instance of the same configuration */
    c10_instance(&t, &cfg);
    rc = persistent_validate(&t);
    if (distinguishes)
        VP_ASSERT(rc == PERSISTENT_ACCESS_INVALID_DATA, "C10.alter.reported-invalid");
    VP_WITNESS(distinguishes && in->alt_pos + 1 == m_cs + N, "C10.alter.last-data-octet.reach");
    VP_WITNESS(distinguishes && in->alt_pos + 1 == m_cs, "C10.alter.checksum-octet.reach");
#if (KINDS) & 0x18u
    VP_WITNESS(!distinguishes && rc == PERSISTENT_ACCESS_SUCCESS && C10_ABSTRACT(kind), "C10.alter.collision.reach");
#endif

#elif defined(MODE_PART)
    /* source operand: exactly min(len, N) octets, ending at the array's end */
    const size_t have = in->len > N ? N : (size_t)in->len;
#ifdef VP_REPLAY
    uint8_t *src = malloc(have ? have : 1);
    memcpy(src, img + (N - have), have);
#else
    const uint8_t *src = img + (N - have);
#endif
    uint8_t old[N], want[N];
    c10_get_data(old);

    /* beyond the data size, mathematically (no wrap) */
    const bool oor = in->len > N || in->off > N - in->len;
    for (size_t i = 0; i < N; ++i)
        want[i] = (!oor && i >= in->off && i < in->off + in->len) ? src[i - in->off] : old[i];
    c10_current(&cfg, want, &in->sta);

    PersistentAccess rc = persistent_store_part(&s, src, (size_t)in->off, (size_t)in->len);
    if (oor) {
        VP_ASSERT(rc == PERSISTENT_ACCESS_ADDRESS_OUT_OF_RANGE, "C10.store-part.beyond-size-refused");
        VP_ASSERT(m_calls == 0, "C10.store-part.refused-without-medium-access");
        VP_ASSERT(c10_medium_same(in->medium), "C10.store-part.refused-medium-unchanged");
        VP_WITNESS(in->off + in->len <= N, "C10.store-part.wrapping-pair.reach");
    } else {
        VP_ASSERT(rc == PERSISTENT_ACCESS_SUCCESS, "C10.store-part.succeeds");
        VP_ASSERT(c10_data_is(want), "C10.store-part.data-on-medium-is-overlay");
        VP_ASSERT(c10_stored() == c10_ref(&cfg, want),
                  "C10.store-part.checksum-on-medium-is-algorithm-of-image");
        VP_ASSERT(c10_outside_same(in->medium), "C10.store-part.nothing-outside-region");
        rc = persistent_validate(&s);
        VP_ASSERT(rc == PERSISTENT_ACCESS_SUCCESS, "C10.validate-after-store-part.succeeds");
        rc = persistent_fetch(dst + GUARD, &s);
        VP_ASSERT(rc == PERSISTENT_ACCESS_SUCCESS, "C10.fetch-after-store-part.succeeds");
        VP_ASSERT(c10_same(dst + GUARD, want), "C10.fetch-after-store-part.returns-overlay");
        VP_WITNESS(in->off == N / 2 && in->len > 0 && in->off + in->len == N && !a_lost,
                   "C10.store-part.tail.reach");
        VP_WITNESS(in->len == 0 && in->off == N, "C10.store-part.empty-at-end.reach");
    }
#ifdef VP_REPLAY
    free(src);
#endif

#elif defined(MODE_FETCHPART)
    uint8_t data[N];
    c10_get_data(data);
    const bool oor = in->len > N || in->off > N - in->len;
    PersistentAccess rc = persistent_fetch_part(dst + GUARD, &s, (size_t)in->off, (size_t)in->len);
    if (oor) {
        VP_ASSERT(rc == PERSISTENT_ACCESS_ADDRESS_OUT_OF_RANGE, "C10.fetch-part.beyond-size-refused");
        VP_ASSERT(m_calls == 0, "C10.fetch-part.refused-without-medium-access");
        VP_ASSERT(dst_guards_same(dst, in->dst, 0), "C10.fetch-part.refused-destination-untouched");
        VP_WITNESS(in->off + in->len <= N, "C10.fetch-part.wrapping-pair.reach");
    } else {
        VP_ASSERT(rc == PERSISTENT_ACCESS_SUCCESS, "C10.fetch-part.succeeds");
        bool same = true;
        for (size_t i = 0; i < N; ++i)
            if (i < in->len && dst[GUARD + i] != data[in->off + i])
                same = false;
        VP_ASSERT(same, "C10.fetch-part.returns-slice");
        VP_ASSERT(dst_guards_same(dst, in->dst, (size_t)in->len), "C10.fetch-part.writes-only-n-octets");
        VP_WITNESS(in->off == N / 2 && in->len > 0 && in->off + in->len == N, "C10.fetch-part.tail.reach");
        VP_WITNESS(in->off == N && in->len == 0, "C10.fetch-part.empty-at-end.reach");
    }
    VP_ASSERT(c10_medium_same(in->medium), "C10.fetch-part.leaves-medium");

#elif defined(MODE_RESET)
    PersistentAccess rc = persistent_reset(&s, in->item);
    VP_ASSERT(rc == PERSISTENT_ACCESS_SUCCESS, "C10.reset.succeeds");
    bool all = true;
    for (size_t i = 0; i < RMAX; ++i)
        if (i < m_cs + N && M[GUARD + i] != in->item)
            all = false;
    VP_ASSERT(all, "C10.reset.every-region-octet-is-fill-value");
    VP_ASSERT(c10_outside_same(in->medium), "C10.reset.nothing-outside-region");
    VP_WITNESS(rc == PERSISTENT_ACCESS_SUCCESS && in->item == 0xa5 && cfg.base == 0x12345678u &&
                   m_writes >= 2,
               "C10.reset.reach");
#else
#error "no MODE"
#endif
}

void harness(void)
{
    VP_INPUT(in);
    c10_assume_cfg(&in.cfg);
    for (unsigned kind = 0; kind < NKINDS; ++kind)
        for (unsigned aux = 0; aux <= AUXMAX; ++aux)
            if (c10_selected(kind, aux))
                scenario(&in, (uint8_t)kind, (uint8_t)aux);
}
VP_MAIN_EPILOGUE()
