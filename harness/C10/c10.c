/* C10: persistent store/validate/fetch round-trips and stays inside its region.
 * Units: src/persistent-storage.c, src/crc-16-arc.c (linked unchanged).
 * See c10_common.h for the medium model and the checksum kinds. The initial
 * medium content is arbitrary in every mode, so each mode is a step from any
 * history of the medium.
 *
 * MODE_ROUNDTRIP  full store -> validate -> fetch
 * MODE_ALTER      full store -> one octet of the region altered -> validate
 * MODE_PART       store_part / validate / fetch / fetch_part, full 64-bit
 *                 (offset, length) pairs
 * MODE_RESET      persistent_reset
 */
#define PROP "C10"
#include "c10_common.h"

struct vp_in {
    struct c10_cfg cfg;
    struct c10_states sta, stb;
    uint8_t medium[MSIZE];
    uint8_t image[N];
    uint8_t dst[GUARD + N + GUARD];
    uint64_t off, len;   /* store_part */
    uint64_t foff, flen; /* fetch_part */
    uint8_t alt_pos, alt_val;
    uint8_t item;
};
VP_DECLARE_INPUT();

#define DSTSZ (GUARD + N + GUARD)

/* everything except dst[GUARD .. GUARD+n) unchanged */
static bool dst_guards_same(const uint8_t *dst, const uint8_t *before, size_t n)
{
    bool same = true;
    for (size_t i = 0; i < DSTSZ; ++i)
        if ((i < GUARD || i >= GUARD + n) && dst[i] != before[i])
            same = false;
    return same;
}

static bool dst_is(const uint8_t *dst, const uint8_t *img)
{
    bool same = true;
    for (size_t i = 0; i < N; ++i)
        if (dst[GUARD + i] != img[i])
            same = false;
    return same;
}

void harness(void)
{
    VP_INPUT(in);
    c10_assume_cfg(&in.cfg);
    c10_load_medium(in.medium);

    PersistentStorage s;
    c10_instance(&s, &in.cfg);

    uint8_t dst[DSTSZ];
    for (size_t i = 0; i < DSTSZ; ++i)
        dst[i] = in.dst[i];
    uint8_t img[N];
    for (size_t i = 0; i < N; ++i)
        img[i] = in.image[i];

#if defined(MODE_ROUNDTRIP) || defined(MODE_ALTER)
    c10_current(&in.cfg, img, &in.sta);
    const uint32_t ref = c10_ref(&in.cfg, img);
    PersistentAccess rc = persistent_store(&s, img);
#endif

#if defined(MODE_ROUNDTRIP)
    VP_ASSERT(rc == PERSISTENT_ACCESS_SUCCESS, "C10.store.succeeds");
    VP_ASSERT(c10_data_is(img), "C10.store.data-on-medium-is-image");
    VP_ASSERT(c10_stored() == ref, "C10.store.checksum-on-medium-is-algorithm-of-image");
    VP_ASSERT(c10_outside_same(in.medium), "C10.store.nothing-outside-region");

    rc = persistent_validate(&s);
    VP_ASSERT(rc == PERSISTENT_ACCESS_SUCCESS, "C10.validate-after-store.succeeds");

    rc = persistent_fetch(dst + GUARD, &s);
    VP_ASSERT(rc == PERSISTENT_ACCESS_SUCCESS, "C10.fetch-after-store.succeeds");
    VP_ASSERT(dst_is(dst, img), "C10.fetch-after-store.returns-image");
    VP_ASSERT(dst_guards_same(dst, in.dst, N), "C10.fetch.writes-only-n-octets");
    VP_ASSERT(c10_data_is(img) && c10_stored() == ref && c10_outside_same(in.medium),
              "C10.validate-fetch.leave-medium");
    VP_WITNESS(in.cfg.aux == 0 && in.cfg.base == 0xfffffff0u, "C10.roundtrip.nobuf.reach");
#ifndef KIND
    VP_WITNESS(C10_KIND(&in.cfg) == 3 && in.cfg.aux == 1, "C10.roundtrip.any-16bit.reach");
    VP_WITNESS(C10_KIND(&in.cfg) == 4 && in.cfg.aux == 1, "C10.roundtrip.any-32bit.reach");
#endif
    VP_WITNESS(in.cfg.aux == AUXMAX && in.cfg.order == 1, "C10.roundtrip.bigbuf.reach");
    VP_WITNESS(in.cfg.aux == AUXMID && in.cfg.init == 0xffffu && !a_lost, "C10.roundtrip.chunked.reach");

#elif defined(MODE_ALTER)
    /* the clause is about the state after a successful store */
    if (rc != PERSISTENT_ACCESS_SUCCESS)
        return;
    VP_ASSUME(in.alt_pos < m_cs + N);
    VP_ASSUME(in.alt_val != M[GUARD + in.alt_pos]);
    M[GUARD + in.alt_pos] = in.alt_val;
    uint8_t img2[N];
    c10_get_data(img2);
    if (in.alt_pos >= m_cs) {
        /* a data octet changed: the altered image has its own states, equal to
         * the original ones as far as the two images share a prefix */
        const size_t j = in.alt_pos - m_cs;
        for (size_t k = 0; k < N; ++k)
            if (k < j)
                VP_ASSUME(in.stb.st[k] == in.sta.st[k]);
        c10_current(&in.cfg, img2, &in.stb);
    }
    const bool distinguishes = (c10_stored() != ref) || (c10_ref(&in.cfg, img2) != ref);
    PersistentStorage t; /* validation by a fresh instance of the same configuration */
    c10_instance(&t, &in.cfg);
    rc = persistent_validate(&t);
    if (distinguishes)
        VP_ASSERT(rc == PERSISTENT_ACCESS_INVALID_DATA, "C10.alter.reported-invalid");
    VP_WITNESS(distinguishes && in.alt_pos >= m_cs && in.cfg.aux == AUXMID, "C10.alter.data.reach");
    VP_WITNESS(distinguishes && in.alt_pos + 1 == m_cs && in.cfg.aux == 0, "C10.alter.checksum.reach");
#ifndef KIND
    VP_WITNESS(!distinguishes && rc == PERSISTENT_ACCESS_SUCCESS, "C10.alter.collision.reach");
#endif

#elif defined(MODE_PART)
    /* source operand: exactly min(len, N) octets, ending at the array's end */
    const size_t have = in.len > N ? N : (size_t)in.len;
#ifdef VP_REPLAY
    uint8_t *src = malloc(have ? have : 1);
    memcpy(src, img + (N - have), have);
#else
    const uint8_t *src = img + (N - have);
#endif
    uint8_t old[N], want[N];
    c10_get_data(old);

    /* beyond the data size, mathematically (no wrap) */
    const bool oor = in.len > N || in.off > N - in.len;
    for (size_t i = 0; i < N; ++i)
        want[i] = (!oor && i >= in.off && i < in.off + in.len) ? src[i - in.off] : old[i];
    c10_current(&in.cfg, want, &in.sta);

    PersistentAccess rc = persistent_store_part(&s, src, (size_t)in.off, (size_t)in.len);
    if (oor) {
        VP_ASSERT(rc == PERSISTENT_ACCESS_ADDRESS_OUT_OF_RANGE, "C10.store-part.beyond-size-refused");
        VP_ASSERT(m_calls == 0, "C10.store-part.refused-without-medium-access");
        VP_ASSERT(c10_medium_same(in.medium), "C10.store-part.refused-medium-unchanged");
        VP_WITNESS(in.off + in.len <= N, "C10.store-part.wrapping-pair.reach");
        VP_WITNESS(in.off == N && in.len == 1, "C10.store-part.just-beyond.reach");
    } else {
        VP_ASSERT(rc == PERSISTENT_ACCESS_SUCCESS, "C10.store-part.succeeds");
        VP_ASSERT(c10_data_is(want), "C10.store-part.data-on-medium-is-overlay");
        VP_ASSERT(c10_stored() == c10_ref(&in.cfg, want),
                  "C10.store-part.checksum-on-medium-is-algorithm-of-image");
        VP_ASSERT(c10_outside_same(in.medium), "C10.store-part.nothing-outside-region");
        rc = persistent_validate(&s);
        VP_ASSERT(rc == PERSISTENT_ACCESS_SUCCESS, "C10.validate-after-store-part.succeeds");
        rc = persistent_fetch(dst + GUARD, &s);
        VP_ASSERT(rc == PERSISTENT_ACCESS_SUCCESS, "C10.fetch-after-store-part.succeeds");
        VP_ASSERT(dst_is(dst, want), "C10.fetch-after-store-part.returns-overlay");
        VP_WITNESS(in.off > 0 && in.off + in.len == N && in.cfg.aux == AUXMID && !a_lost,
                   "C10.store-part.tail.reach");
        VP_WITNESS(in.len == 0 && in.off == N, "C10.store-part.empty-at-end.reach");
        VP_WITNESS(in.off == 0 && in.len == N && in.cfg.aux == AUXMAX, "C10.store-part.full.reach");
        for (size_t i = 0; i < DSTSZ; ++i)
            dst[i] = in.dst[i];
    }

    /* fetch_part on the resulting state */
    uint8_t before[MSIZE];
    for (size_t i = 0; i < MSIZE; ++i)
        before[i] = M[i];
    const unsigned calls0 = m_calls;
    const bool foor = in.flen > N || in.foff > N - in.flen;
    rc = persistent_fetch_part(dst + GUARD, &s, (size_t)in.foff, (size_t)in.flen);
    if (foor) {
        VP_ASSERT(rc == PERSISTENT_ACCESS_ADDRESS_OUT_OF_RANGE, "C10.fetch-part.beyond-size-refused");
        VP_ASSERT(m_calls == calls0, "C10.fetch-part.refused-without-medium-access");
        VP_ASSERT(dst_guards_same(dst, in.dst, 0), "C10.fetch-part.refused-destination-untouched");
        VP_WITNESS(in.foff + in.flen <= N, "C10.fetch-part.wrapping-pair.reach");
    } else {
        VP_ASSERT(rc == PERSISTENT_ACCESS_SUCCESS, "C10.fetch-part.succeeds");
        bool same = true;
        for (size_t i = 0; i < N; ++i)
            if (i < in.flen && dst[GUARD + i] != want[in.foff + i])
                same = false;
        VP_ASSERT(same, "C10.fetch-part.returns-slice");
        VP_ASSERT(dst_guards_same(dst, in.dst, (size_t)in.flen), "C10.fetch-part.writes-only-n-octets");
        VP_WITNESS(in.foff == N / 2 && in.flen > 0 && in.foff + in.flen == N && !oor,
                   "C10.fetch-part.tail.reach");
    }
    VP_ASSERT(c10_medium_same(before), "C10.fetch-part.leaves-medium");

#elif defined(MODE_RESET)
    PersistentAccess rc = persistent_reset(&s, in.item);
    VP_ASSERT(rc == PERSISTENT_ACCESS_SUCCESS, "C10.reset.succeeds");
    bool all = true;
    for (size_t i = 0; i < RMAX; ++i)
        if (i < m_cs + N && M[GUARD + i] != in.item)
            all = false;
    VP_ASSERT(all, "C10.reset.every-region-octet-is-fill-value");
    VP_ASSERT(c10_outside_same(in.medium), "C10.reset.nothing-outside-region");
    VP_WITNESS(in.cfg.aux == 0 && C10_WIDE(C10_KIND(&in.cfg)) && in.item == 0xa5, "C10.reset.nobuf-32bit.reach");
    VP_WITNESS(in.cfg.aux == AUXMAX && in.cfg.base == 0x12345678u, "C10.reset.bigbuf.reach");
    VP_WITNESS(in.cfg.aux == AUXMID && C10_KIND(&in.cfg) == 0, "C10.reset.chunked-default.reach");
#else
#error "no MODE"
#endif
}
VP_MAIN_EPILOGUE()
