/* Shared by C10 and C11: medium model, configuration, checksum algorithms.
 *
 * Unit under test: src/persistent-storage.c (linked unchanged), CRC from
 * src/crc-16-arc.c (linked unchanged, used behind the checksum callback).
 *
 * Medium: a static octet array M. The instance's region is
 *     [m_base, m_base + m_cs + N)      (checksum, then data; no padding)
 * in the callbacks' 32-bit address space and lives in M[GUARD ..); every other
 * octet of M is a guard. The read/write callbacks ASSERT that every access
 * [address, address + n) lies inside the region and that the caller's buffer
 * can hold n octets.
 *
 * Structure of an instance (measured: symbolic transfer SIZES are what makes
 * these queries expensive, symbolic contents are cheap):
 *   - the data size N is a compile-time parameter (enumerated by the spec);
 *   - checksum kind and auxiliary-buffer size are enumerated INSIDE the
 *     harness: harness() runs one scenario per (kind in KINDS, aux in AUXSET),
 *     each with constant kind/aux, all over the same symbolic input;
 *   - placement (32 bit), initial value, order of the configuration calls,
 *     medium content, images, offsets and lengths are symbolic.
 * Because several scenarios run in one query, scenario-dependent conditions
 * are guards (the scenario is skipped), never VP_ASSUMEs (an assumption made
 * in one scenario would silently restrict the others).
 *
 * Checksum kinds
 *   0  the library's built-in default ("trivial sum", 16 bit)
 *   1  CRC-16/ARC: the real ufw_crc16_arc behind the callback signature
 *   2  a 32-bit sum (harness)
 *   3  ANY chunk-compositional 16-bit algorithm   (abstract, see below)
 *   4  ANY chunk-compositional 32-bit algorithm   (abstract)
 *
 * Abstract algorithm: a chunk-compositional checksum is a fold
 *     state_0 = init, state_k = step(state_{k-1}, octet_k), result = state_N.
 * For the data image the harness declares "current", the states state_1..N
 * are unconstrained inputs of the instance (this over-approximates every
 * step function). The callback follows the library through the image: called
 * with the running value state_p and the next n octets of the image it
 * returns state_{p+n}; a calculation may (re)start from state_0 at any time.
 * Any other call returns an unconstrained value. "The algorithm applied to
 * the data image" is state_N. The three concrete kinds make the same check
 * with real arithmetic at a higher solver cost.
 */
#ifndef C10_COMMON_H
#define C10_COMMON_H

#include <vp.h>
#include <string.h>
#include <ufw/persistent-storage.h>
#include <ufw/crc/crc16-arc.h>

/* instance parameters arrive as VP_* macros (the driver passes every -D to the
 * library units as well, so short names are defined only here) */
#ifndef VP_DATA_N
#define VP_DATA_N 4
#endif
#define N VP_DATA_N
#ifndef PROP
#define PROP "C10"
#endif
#ifdef VP_KINDS
#define KINDS VP_KINDS                /* bit k set: run kind k */
#else
#define KINDS 0x1fu
#endif
#ifdef VP_AUXSET
#define AUXSET VP_AUXSET              /* bit a set: run auxiliary size a */
#else
#define AUXSET 0xffffffffu
#endif

#define GUARD 2
#define CSMAX 4                       /* widest checksum */
#define RMAX (CSMAX + N)              /* largest region */
#define MSIZE (GUARD + RMAX + GUARD)
#define AUXMAX (N + 1)
#define AUXMID ((N + 1) / 2)          /* a buffer that forces chunking */
#define NKINDS 5

#define C10_WIDE(k) ((k) == 2 || (k) == 4)
#define C10_ABSTRACT(k) ((k) >= 3)

/* ---- configuration ----------------------------------------------------- */
struct c10_cfg {
    uint32_t base;  /* placement of the instance on the medium (symbolic) */
    uint32_t init;  /* initial value of the checksum algorithm (symbolic) */
    uint8_t order;  /* 0 place after choosing the checksum, 1 place before,
                     * 2 no persistent_place() call at all (base must be 0) */
    uint8_t kind;   /* overwritten per scenario with a constant */
    uint8_t aux;    /* 0 no auxiliary buffer; 1..N+1 buffer of that size;
                     * overwritten per scenario with a constant */
};

/* states of the abstract algorithm for one data image (part of the input) */
struct c10_states {
    uint32_t st[N]; /* st[k-1]: state after k octets of the image */
    uint32_t junk;  /* value of the algorithm on anything that is not this image */
};

/* ---- medium ------------------------------------------------------------ */
static uint8_t M[MSIZE];
static uint32_t m_base;
static size_t m_cs;              /* checksum size of the configured kind */
static unsigned m_calls;         /* read + write callback invocations */
static unsigned m_reads, m_writes;

/* C11 controls; everything is off (constant) in the C10 harnesses */
static int m_fault_at = -1;      /* callback invocation index that fails */
static size_t m_fault_ret;       /* count it reports (must differ from the request) */
static size_t m_fault_xfer;      /* octets it really transfers (<= requested) */
static bool m_fault_hit;
static uint8_t m_crash_mode;     /* 0 none, 1 whole-write budget, 2 octet budget */
static size_t m_budget;          /* write calls / octets that still persist */

static bool c10_in_region(uint32_t address, size_t n)
{
    /* the region does not wrap 2^32 (c10_begin), so membership is a 32-bit
     * offset comparison */
    const uint32_t off = address - m_base;
    const uint32_t len = (uint32_t)m_cs + N;
    return n <= len && off <= len - (uint32_t)n;
}

static size_t m_read(void *dst, uint32_t address, size_t n)
{
    const unsigned call = m_calls++;
    size_t xfer = n, ret = n;
    m_reads++;
    if (m_fault_at >= 0 && call == (unsigned)m_fault_at && m_fault_ret != n) {
        m_fault_hit = true;
        ret = m_fault_ret;
        xfer = m_fault_xfer < n ? m_fault_xfer : n;
    }
    if (n == 0)
        return ret;
    const bool ok = c10_in_region(address, n);
    VP_ASSERT(ok, PROP ".read-inside-region");
    VP_ASSERT(VP_W_OK(dst, n), PROP ".read-destination-holds-n");
    if (!ok)
        return 0;
    const size_t idx = GUARD + (size_t)(uint32_t)(address - m_base);
    unsigned char *d = dst;
    for (size_t i = 0; i < xfer; ++i)
        d[i] = M[idx + i];
    return ret;
}

static size_t m_write(uint32_t address, const void *src, size_t n)
{
    const unsigned call = m_calls++;
    size_t xfer = n, ret = n;
    m_writes++;
    if (m_fault_at >= 0 && call == (unsigned)m_fault_at && m_fault_ret != n) {
        m_fault_hit = true;
        ret = m_fault_ret;
        xfer = m_fault_xfer < n ? m_fault_xfer : n;
    }
    if (m_crash_mode == 1) {
        /* power is lost after m_budget complete write calls */
        if (m_budget > 0)
            m_budget--;
        else
            xfer = 0;
    } else if (m_crash_mode == 2) {
        /* power is lost after m_budget octets: the write in progress is torn */
        if (xfer > m_budget)
            xfer = m_budget;
        m_budget -= xfer;
    }
    if (n == 0)
        return ret;
    const bool ok = c10_in_region(address, n);
    VP_ASSERT(ok, PROP ".write-inside-region");
    VP_ASSERT(VP_R_OK(src, n), PROP ".write-source-holds-n");
    if (!ok)
        return 0;
    const size_t idx = GUARD + (size_t)(uint32_t)(address - m_base);
    const unsigned char *s = src;
    for (size_t i = 0; i < xfer; ++i)
        M[idx + i] = s[i];
    return ret;
}

/* ---- checksum algorithms ---------------------------------------------- */

/* CRC-16/ARC: the real ufw_crc16_arc behind the callback signature */
static uint16_t cb_crc16(const unsigned char *d, size_t n, uint16_t init)
{
    return ufw_crc16_arc(init, d, n);
}

/* a 32-bit sum (position sensitive: s' = 33 s + octet, mod 2^32) */
static uint32_t cb_sum32(const unsigned char *d, size_t n, uint32_t s)
{
    for (size_t i = 0; i < n; ++i)
        s = (s << 5) + s + d[i];
    return s;
}

/* abstract algorithm (kinds 3 and 4) */
static const uint8_t *a_img; /* current data image, N octets */
static uint32_t a_st[N + 1]; /* a_st[k]: state after k octets; a_st[0] = init */
static size_t a_pos;         /* octets of the image consumed by the running calculation */
static uint32_t a_junk;      /* value of the algorithm on anything else */
static bool a_lost;          /* the library fed something that is not the image in order */

static bool a_match(const unsigned char *d, size_t from, size_t n)
{
    if (n > N - from)
        return false;
    bool same = true;
    for (size_t i = 0; i < N; ++i)
        if (i < n && d[i] != a_img[from + i])
            same = false;
    return same;
}

static uint32_t a_step(const unsigned char *d, size_t n, uint32_t s)
{
    if (s == a_st[a_pos] && a_match(d, a_pos, n)) {
        a_pos += n;
        return a_st[a_pos];
    }
    if (s == a_st[0] && a_match(d, 0, n)) {
        a_pos = n;
        return a_st[a_pos];
    }
    a_lost = true;
    return a_junk;
}

static uint16_t cb_abs16(const unsigned char *d, size_t n, uint16_t s)
{
    return (uint16_t)a_step(d, n, s);
}

static uint32_t cb_abs32(const unsigned char *d, size_t n, uint32_t s)
{
    return a_step(d, n, s);
}

/* The configured algorithm applied in ONE piece to a data image of N octets.
 * Kind 0 is written from the header documentation of the default ("sums up
 * all bytes into a uint16_t", initial value 0); kinds 1 and 2 are the
 * configured callbacks themselves; kinds 3 and 4: state_N of the current
 * image (img must be the image declared by c10_current). */
static uint32_t c10_ref(const struct c10_cfg *c, const uint8_t *img)
{
    switch (c->kind) {
    case 0: {
        uint32_t s = 0;
        for (size_t i = 0; i < N; ++i)
            s = (s + img[i]) & 0xffffu;
        return s;
    }
    case 1:
        return cb_crc16(img, N, (uint16_t)c->init);
    case 2:
        return cb_sum32(img, N, c->init);
    default:
        return a_st[N];
    }
}

/* declare img (N octets, must stay alive and unchanged) the current data image
 * with the abstract states st; harmless for the concrete kinds */
static void c10_current(const struct c10_cfg *c, const uint8_t *img, const struct c10_states *st)
{
    const bool wide = C10_WIDE(c->kind);
    a_img = img;
    a_st[0] = wide ? c->init : (uint16_t)c->init;
    for (size_t k = 0; k < N; ++k)
        a_st[k + 1] = wide ? st->st[k] : (uint16_t)st->st[k];
    a_junk = st->junk;
    a_pos = 0;
}

/* checksum octets on the medium, read as an integer object of the checksum's
 * width in host representation (that is how the API hands it to the write
 * callback: a pointer to the integer) */
static uint32_t c10_stored(void)
{
    if (m_cs == 2) {
        uint16_t v;
        memcpy(&v, &M[GUARD], 2);
        return v;
    } else {
        uint32_t v;
        memcpy(&v, &M[GUARD], 4);
        return v;
    }
}

static void c10_put_stored(uint32_t sum)
{
    if (m_cs == 2) {
        uint16_t v = (uint16_t)sum;
        memcpy(&M[GUARD], &v, 2);
    } else {
        memcpy(&M[GUARD], &sum, 4);
    }
}

/* copy of the N data octets that are on the medium now */
static void c10_get_data(uint8_t *img)
{
    for (size_t i = 0; i < N; ++i)
        img[i] = M[GUARD + m_cs + i];
}

static void c10_put_data(const uint8_t *img)
{
    for (size_t i = 0; i < N; ++i)
        M[GUARD + m_cs + i] = img[i];
}

static bool c10_data_is(const uint8_t *img)
{
    bool same = true;
    for (size_t i = 0; i < N; ++i)
        if (M[GUARD + m_cs + i] != img[i])
            same = false;
    return same;
}

static bool c10_same(const uint8_t *a, const uint8_t *b)
{
    bool same = true;
    for (size_t i = 0; i < N; ++i)
        if (a[i] != b[i])
            same = false;
    return same;
}

/* every octet of M outside the region equals its value in `before` */
static bool c10_outside_same(const uint8_t *before)
{
    bool same = true;
    for (size_t i = 0; i < MSIZE; ++i) {
        const bool inside = (i >= GUARD && i < GUARD + m_cs + N);
        if (!inside && M[i] != before[i])
            same = false;
    }
    return same;
}

static bool c10_medium_same(const uint8_t *before)
{
    bool same = true;
    for (size_t i = 0; i < MSIZE; ++i)
        if (M[i] != before[i])
            same = false;
    return same;
}

static void c10_snapshot(uint8_t *to)
{
    for (size_t i = 0; i < MSIZE; ++i)
        to[i] = M[i];
}

/* ---- scenario set-up --------------------------------------------------- */
#ifndef VP_REPLAY
static unsigned char c10_auxarr[AUXMAX];
#endif
static unsigned char *c10_aux;

/* input-wide assumptions (independent of the scenario) */
static void c10_assume_cfg(const struct c10_cfg *c)
{
    VP_ASSUME(c->order <= 2);
    VP_ASSUME(c->order != 2 || c->base == 0);
}

static bool c10_selected(unsigned kind, unsigned aux)
{
    return ((KINDS >> kind) & 1u) && ((AUXSET >> aux) & 1u);
}

/* Start a scenario: constant kind and aux into the configuration, medium and
 * stub state reset, medium content loaded. Returns false if the scenario
 * does not apply to this input (the region would wrap the address space). */
static bool c10_begin(struct c10_cfg *c, uint8_t kind, uint8_t aux, const uint8_t *content)
{
    c->kind = kind;
    c->aux = aux;
    m_cs = C10_WIDE(kind) ? 4 : 2;
    /* no early return: an assignment below a symbolic branch would reach the
     * caller as a conditional value and defeat constant propagation */
    const bool fits = (uint64_t)c->base + m_cs + N <= 0x100000000ull;
    m_base = c->base;
    m_calls = m_reads = m_writes = 0;
    m_fault_at = -1;
    m_fault_hit = false;
    m_crash_mode = 0;
    m_budget = 0;
    a_lost = false;
    a_pos = 0;
    for (size_t i = 0; i < MSIZE; ++i)
        M[i] = content[i];
#ifdef VP_REPLAY
    free(c10_aux);
    c10_aux = aux ? malloc(aux) : NULL; /* exact extent, visible to ASan */
#else
    /* the buffer ends exactly after `aux` octets */
    c10_aux = aux ? c10_auxarr + (AUXMAX - aux) : NULL;
#endif
    return fits;
}

/* a fresh instance with the configuration c (public API only) */
static uint8_t c10_stale[sizeof(PersistentStorage)];
static void c10_set_stale(const uint8_t *p)
{
    for (size_t i = 0; i < sizeof c10_stale; ++i)
        c10_stale[i] = p[i];
}
static void c10_instance(PersistentStorage *s, const struct c10_cfg *c)
{
    /* the object holds arbitrary stale octets before persistent_init (automatic storage, reused memory) */
    for (size_t i = 0; i < sizeof *s; ++i)
        ((unsigned char *)s)[i] = c10_stale[i];
    persistent_init(s, N, m_read, m_write);
    if (c->order == 1)
        persistent_place(s, c->base);
    if (c->kind == 1)
        persistent_sum16(s, cb_crc16, (uint16_t)c->init);
    else if (c->kind == 2)
        persistent_sum32(s, cb_sum32, c->init);
    else if (c->kind == 3)
        persistent_sum16(s, cb_abs16, (uint16_t)c->init);
    else if (c->kind == 4)
        persistent_sum32(s, cb_abs32, c->init);
    if (c->order == 0)
        persistent_place(s, c->base);
    if (c->aux != 0)
        persistent_buffer(s, c10_aux, c->aux);
}

#endif /* C10_COMMON_H */
