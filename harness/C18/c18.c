/* C18: byte buffers keep offset <= used <= size and behave as a FIFO of octets.
 * Unit: src/byte-buffer.c (linked unchanged).
 * Method: one-step induction. The pre-state is ANY state satisfying the
 * invariant (size 1..SZ, offset <= used <= size, arbitrary contents); one
 * operation with arbitrary operand is executed by the real code and compared
 * with a list model. Holds for one step from every valid state => holds along
 * every history. */
#include <vp.h>
#include <string.h>
#include <ufw/byte-buffer.h>

#ifndef SZ
#define SZ 4
#endif
#define GUARD 2
#define NOP (SZ + 1) /* max operand length: size + 1 */

struct vp_in {
    uint8_t size, used, offset;
    uint8_t mem[SZ + 2 * GUARD];
    uint8_t op;
    uint8_t n;
    uint8_t operand[NOP];
    uint8_t dst[NOP + 2 * GUARD];
    /* set-up arguments */
    uint8_t null_data;
    uint64_t s_size, s_used, s_offset;
};
VP_DECLARE_INPUT();

void harness(void)
{
    VP_INPUT(in);
    VP_ASSUME(in.size >= 1 && in.size <= SZ);
    VP_ASSUME(in.offset <= in.used && in.used <= in.size);
    VP_ASSUME(in.n <= NOP);

    uint8_t mem[SZ + 2 * GUARD];
    uint8_t old[SZ + 2 * GUARD];
    uint8_t dst[NOP + 2 * GUARD];
    uint8_t dold[NOP + 2 * GUARD];
    memcpy(mem, in.mem, sizeof mem);
    memcpy(old, in.mem, sizeof old);
    memcpy(dst, in.dst, sizeof dst);
    memcpy(dold, in.dst, sizeof dold);

    ByteBuffer b = { .data = mem + GUARD, .size = in.size, .used = in.used,
                     .offset = in.offset };
    const size_t size = in.size, used = in.used, offset = in.offset;
    const size_t rest = used - offset;
    const size_t n = in.n;
    /* operand occupies exactly the last n octets of its array */
    const uint8_t *opnd = in.operand + (NOP - n);
    uint8_t *d = dst + GUARD;

    bool data_same = true;   /* expectation: data[0..size) unchanged */
    bool fields_same = false; /* expectation: used/offset unchanged */

    switch (in.op) {
    case 0: { /* add */
        int rc = byte_buffer_add(&b, opnd, n);
        if (n <= size - used) {
            VP_ASSERT(rc == 0, "C18.add.accepts-when-space");
            VP_ASSERT(b.used == used + n && b.offset == offset, "C18.add.fields");
            for (size_t i = 0; i < SZ; ++i) {
                if (i < size) {
                    uint8_t e = (i >= used && i < used + n) ? opnd[i - used] : old[GUARD + i];
                    VP_ASSERT(b.data[i] == e, "C18.add.appends-exactly");
                }
            }
            data_same = false;
            VP_WITNESS(n == size && n == SZ, "C18.add.full.reach");
        } else {
            VP_ASSERT(rc < 0, "C18.add.refuses-when-full");
            fields_same = true;
            VP_WITNESS(n == size - used + 1, "C18.add.refuse.reach");
        }
        break;
    }
    case 1: { /* consume */
        int rc = byte_buffer_consume(&b, d, n);
        if (n <= rest) {
            VP_ASSERT(rc == 0, "C18.consume.accepts");
            VP_ASSERT(b.used == used && b.offset == offset + n, "C18.consume.fields");
            for (size_t i = 0; i < NOP; ++i)
                if (i < n)
                    VP_ASSERT(d[i] == old[GUARD + offset + i], "C18.consume.oldest-in-order");
            VP_WITNESS(n == SZ && offset == 0, "C18.consume.reach");
        } else {
            VP_ASSERT(rc < 0, "C18.consume.refuses");
            fields_same = true;
            VP_WITNESS(n == rest + 1 && rest > 0, "C18.consume.refuse.reach");
        }
        /* nothing outside dst[0..n) written */
        for (size_t i = 0; i < NOP + 2 * GUARD; ++i)
            if (i < GUARD || i >= GUARD + ((n <= rest) ? n : 0))
                VP_ASSERT(dst[i] == dold[i], "C18.consume.dst-frame");
        break;
    }
    case 2: { /* consume_at_most */
        ssize_t rc = byte_buffer_consume_at_most(&b, d, n);
        size_t m = n > rest ? rest : n;
        if (rest == 0) {
            VP_ASSERT(rc < 0, "C18.atmost.empty-fails");
            fields_same = true;
            m = 0;
        } else {
            VP_ASSERT(rc == (ssize_t)m, "C18.atmost.count");
            VP_ASSERT(b.used == used && b.offset == offset + m, "C18.atmost.fields");
            for (size_t i = 0; i < NOP; ++i)
                if (i < m)
                    VP_ASSERT(d[i] == old[GUARD + offset + i], "C18.atmost.oldest-in-order");
            VP_WITNESS(n > rest && rest >= 2, "C18.atmost.reach");
        }
        for (size_t i = 0; i < NOP + 2 * GUARD; ++i)
            if (i < GUARD || i >= GUARD + m)
                VP_ASSERT(dst[i] == dold[i], "C18.atmost.dst-frame");
        break;
    }
    case 3: { /* rewind */
        int rc = byte_buffer_rewind(&b);
        VP_ASSERT(rc == 0, "C18.rewind.rc");
        VP_ASSERT(b.offset == 0, "C18.rewind.offset-zero");
        VP_ASSERT(b.used == rest, "C18.rewind.used-is-rest");
        for (size_t i = 0; i < SZ; ++i)
            if (i < rest)
                VP_ASSERT(b.data[i] == old[GUARD + offset + i], "C18.rewind.keeps-unread");
        VP_ASSERT(byte_buffer_avail(&b) == size - rest, "C18.rewind.space-free-again");
        data_same = false;
        VP_WITNESS(offset > 0 && rest >= 2, "C18.rewind.reach");
        break;
    }
    case 4: /* reset */
        byte_buffer_reset(&b);
        VP_ASSERT(b.offset == 0 && b.used == 0, "C18.reset.empties");
        VP_WITNESS(used > 0, "C18.reset.reach");
        break;
    case 5: /* clear */
        byte_buffer_clear(&b);
        VP_ASSERT(b.offset == 0 && b.used == 0, "C18.clear.empties");
        for (size_t i = 0; i < SZ; ++i)
            if (i < size)
                VP_ASSERT(b.data[i] == 0, "C18.clear.zeroes");
        data_same = false;
        VP_WITNESS(used > 0 && size == SZ, "C18.clear.reach");
        break;
    case 6: /* repeat */
        byte_buffer_repeat(&b);
        VP_ASSERT(b.offset == 0 && b.used == used, "C18.repeat.all-unread-again");
        VP_WITNESS(offset > 0, "C18.repeat.reach");
        break;
    case 7: /* queries */
        VP_ASSERT(byte_buffer_avail(&b) == size - used, "C18.avail");
        VP_ASSERT(byte_buffer_rest(&b) == rest, "C18.rest");
        fields_same = true;
        VP_WITNESS(rest == 1 && size - used == 1, "C18.query.reach");
        break;
    default: { /* set-up: set / use / space */
        ByteBuffer s = { .data = (unsigned char *)0, .size = 0, .used = 0, .offset = 0 };
        void *p = in.null_data ? NULL : (void *)(mem + GUARD);
        int which = in.op % 3;
        size_t e_used = in.s_used, e_off = in.s_offset;
        int rc;
        if (which == 0) {
            rc = byte_buffer_set(&s, p, in.s_size, in.s_used, in.s_offset);
        } else if (which == 1) {
            rc = byte_buffer_use(&s, p, in.s_size);
            e_used = in.s_size;
            e_off = 0;
        } else {
            rc = byte_buffer_space(&s, p, in.s_size);
            e_used = 0;
            e_off = 0;
        }
        bool bad = (p == NULL) || in.s_size == 0 || e_used > in.s_size || e_off > e_used;
        if (bad) {
            VP_ASSERT(rc < 0, "C18.setup.refuses-invalid");
            VP_WITNESS(which == 0 && p != NULL && in.s_size > 0 && in.s_used <= in.s_size,
                       "C18.setup.refuse-offset.reach");
        } else {
            VP_ASSERT(rc == 0, "C18.setup.accepts-valid");
            VP_ASSERT(s.data == p && s.size == in.s_size && s.used == e_used && s.offset == e_off,
                      "C18.setup.fields");
            VP_WITNESS(which == 0 && e_off == e_used && e_used == in.s_size, "C18.setup.accept.reach");
        }
        fields_same = true;
        break;
    }
    }

    /* invariant and frame */
    VP_ASSERT(b.offset <= b.used && b.used <= b.size, "C18.invariant");
    VP_ASSERT(b.size == size && b.data == mem + GUARD, "C18.size-and-data-fixed");
    if (fields_same)
        VP_ASSERT(b.used == used && b.offset == offset, "C18.refused-or-query-no-change");
    for (size_t i = 0; i < SZ + 2 * GUARD; ++i) {
        bool inside = (i >= GUARD && i < GUARD + size);
        if (!inside)
            VP_ASSERT(mem[i] == old[i], "C18.nothing-outside-size-octets");
        else if (data_same)
            VP_ASSERT(mem[i] == old[i], "C18.data-unchanged");
    }
}
VP_MAIN_EPILOGUE()
