/**
 * @file toolchain.h
 * @brief Toolchain introspection API
 *
 * __cplusplus note: This file is macro-only, so we don't need the extern C
 * block in this header.
 */

#ifndef INC_UFW_TOOLCHAIN_H
#define INC_UFW_TOOLCHAIN_H

/* Compiler Command Line API Identification */

/** Reflect C compiler's support for `-Wall` */
#define UFW_CC_HAS_Wall 1
/** Reflect C compiler's support for `-Wextra` */
#define UFW_CC_HAS_Wextra 1
/** Reflect C compiler's support for `-Werror` */
#define UFW_CC_HAS_Werror 1
/** Reflect C compiler's support for `-Wasm` */
#define UFW_CC_HAS_Wasm 0
/** Reflect C compiler's support for `-Wimplicit_fallthrough` */
#define UFW_CC_HAS_Wimplicit_fallthrough 1
/** Reflect C compiler's support for `-Werror=implicit-function-declaration` */
#define UFW_CC_HAS_Wimplicit_function_declaration_error 1
/** Reflect C compiler's support for `-Wimplicit-function-declaration` */
#define UFW_CC_HAS_Wimplicit_function_declaration 1
/** Reflect C compiler's support for `-Werror=implicit-int` */
#define UFW_CC_HAS_Wimplicit_int_error 1
/** Reflect C compiler's support for `-Wimplicit-int` */
#define UFW_CC_HAS_Wimplicit_int 1
/** Reflect C compiler's support for `-Wmissing-prototypes` */
#define UFW_CC_HAS_Wmissing_prototypes 1
/** Reflect C compiler's support for `-Wnewline-eof` */
#define UFW_CC_HAS_Wnewline_eof 0
/** Reflect C compiler's support for `-Wpacked` */
#define UFW_CC_HAS_Wpacked 1
/** Reflect C compiler's support for `-Wpadded` */
#define UFW_CC_HAS_Wpadded 1
/** Reflect C compiler's support for `-Wpedantic` */
#define UFW_CC_HAS_Wpedantic 1
/** Reflect C compiler's support for `-Wredundant-decls` */
#define UFW_CC_HAS_Wredundant_decls 1
/** Reflect C compiler's support for `-Wsequence-point` */
#define UFW_CC_HAS_Wsequence_point 1
/** Reflect C compiler's support for `-Wshadow` */
#define UFW_CC_HAS_Wshadow 1
/** Reflect C compiler's support for `-Wshift-sign-overflow` */
#define UFW_CC_HAS_Wshift_sign_overflow 0
/** Reflect C compiler's support for `-Wstrict-prototypes` */
#define UFW_CC_HAS_Wstrict_prototypes 1
/** Reflect C compiler's support for `-Wundef` */
#define UFW_CC_HAS_Wundef 1
/** Reflect C compiler's support for `-Wused-but-marked-unused` */
#define UFW_CC_HAS_Wused_but_marked_unused 0
/** Reflect C compiler's support for `-Wmisleading-indentation` */
#define UFW_CC_HAS_Wmisleading_indentation 1

/** Reflect C compiler's support for `__attribute__((cold))` */
#define UFW_CC_HAS_ATTRIBUTE_COLD 1
/** Reflect C compiler's support for `__attribute__((deprecated))` */
#define UFW_CC_HAS_ATTRIBUTE_DEPRECATED 1
/** Reflect C compiler's support for `__attribute__((hot))` */
#define UFW_CC_HAS_ATTRIBUTE_HOT 1
/** Reflect C compiler's support for `__attribute__((noreturn))` */
#define UFW_CC_HAS_ATTRIBUTE_NORETURN 1
/** Reflect C compiler's support for `__attribute__((packed))` */
#define UFW_CC_HAS_ATTRIBUTE_PACKED 1
/** Reflect C compiler's support for `__attribute__((section))` */
#define UFW_CC_HAS_ATTRIBUTE_SECTION 1
/** Reflect C compiler's support for `__attribute__((unused))` */
#define UFW_CC_HAS_ATTRIBUTE_UNUSED 1
/** Reflect C compiler's support for `__attribute__((weak, alias(...)))` */
#define UFW_CC_HAS_ATTRIBUTE_WEAK_ALIAS 1
/** Reflect C compiler's support for `__attribute__((warn_unused_result))` */
#define UFW_CC_HAS_ATTRIBUTE_WARN_UNUSED_RESULT 1
/** Reflect C compiler's support for `__builtin__((expect))` */
#define UFW_CC_HAS_BUILTIN_EXPECT 1
/** Reflect C compiler's support for `__builtin_bswap16()` */
#define UFW_CC_HAS_BUILTIN_BSWAP16 1
/** Reflect C compiler's support for `__builtin_bswap32()` */
#define UFW_CC_HAS_BUILTIN_BSWAP32 1
/** Reflect C compiler's support for `__builtin_bswap64()` */
#define UFW_CC_HAS_BUILTIN_BSWAP64 1

/** Reflect C++ compiler's support for `-Wall` */
#define UFW_CXX_HAS_Wall 1
/** Reflect C++ compiler's support for `-Wextra` */
#define UFW_CXX_HAS_Wextra 1
/** Reflect C++ compiler's support for `-Werror` */
#define UFW_CXX_HAS_Werror 1
/** Reflect C++ compiler's support for `-Wasm` */
#define UFW_CXX_HAS_Wasm 0
/** Reflect C++ compiler's support for `-Wimplicit-fallthrough` */
#define UFW_CXX_HAS_Wimplicit_fallthrough 1
/** Reflect C++ compiler's support for `-Wnewline-eof` */
#define UFW_CXX_HAS_Wnewline_eof 0
/** Reflect C++ compiler's support for `-Wpacked` */
#define UFW_CXX_HAS_Wpacked 1
/** Reflect C++ compiler's support for `-Wpadded` */
#define UFW_CXX_HAS_Wpadded 1
/** Reflect C++ compiler's support for `-Wpedantic` */
#define UFW_CXX_HAS_Wpedantic 1
/** Reflect C++ compiler's support for `-Wredundant-decls` */
#define UFW_CXX_HAS_Wredundant_decls 1
/** Reflect C++ compiler's support for `-Wsequence-point` */
#define UFW_CXX_HAS_Wsequence_point 1
/** Reflect C++ compiler's support for `-Wshadow` */
#define UFW_CXX_HAS_Wshadow 1
/** Reflect C++ compiler's support for `-Wshift-sign-overflow` */
#define UFW_CXX_HAS_Wshift_sign_overflow 0
/** Reflect C++ compiler's support for `-Wundef` */
#define UFW_CXX_HAS_Wundef 1
/** Reflect C++ compiler's support for `-Wused-but-marked-unused` */
#define UFW_CXX_HAS_Wused_but_marked_unused 0
/** Reflect C++ compiler's support for `-Wmisleading-indentation` */
#define UFW_CXX_HAS_Wmisleading_indentation 1

/** Reflect C++ compiler's support for `__attribute__((cold))` */
#define UFW_CXX_HAS_ATTRIBUTE_COLD 1
/** Reflect C++ compiler's support for `__attribute__((deprecated))` */
#define UFW_CXX_HAS_ATTRIBUTE_DEPRECATED 1
/** Reflect C++ compiler's support for `__attribute__((hot))` */
#define UFW_CXX_HAS_ATTRIBUTE_HOT 1
/** Reflect C++ compiler's support for `__attribute__((noreturn))` */
#define UFW_CXX_HAS_ATTRIBUTE_NORETURN 1
/** Reflect C++ compiler's support for `__attribute__((packed))` */
#define UFW_CXX_HAS_ATTRIBUTE_PACKED 1
/** Reflect C++ compiler's support for `__attribute__((section))` */
#define UFW_CXX_HAS_ATTRIBUTE_SECTION 1
/** Reflect C++ compiler's support for `__attribute__((unused))` */
#define UFW_CXX_HAS_ATTRIBUTE_UNUSED 1
/** Reflect C++ compiler's support for `__attribute__((weak, alias(...)))` */
#define UFW_CXX_HAS_ATTRIBUTE_WEAK_ALIAS 1
/** Reflect C++ compiler's support for `__attribute__((warn_unused_result))` */
#define UFW_CXX_HAS_ATTRIBUTE_WARN_UNUSED_RESULT 1
/** Reflect C++ compiler's support for `__builtin__((expect))` */
#define UFW_CXX_HAS_BUILTIN_EXPECT 1
/** Reflect C++ compiler's support for `__builtin_bswap16()` */
#define UFW_CXX_HAS_BUILTIN_BSWAP16 1
/** Reflect C++ compiler's support for `__builtin_bswap32()` */
#define UFW_CXX_HAS_BUILTIN_BSWAP32 1
/** Reflect C++ compiler's support for `__builtin_bswap64()` */
#define UFW_CXX_HAS_BUILTIN_BSWAP64 1

/* Language Extension Identification */

#ifdef __cplusplus

/* C++ */

#if (UFW_CXX_HAS_ATTRIBUTE_COLD > 0)
/** Show if the active compiler has support for `__attribute__((cold))` */
#define HAVE_COMPILER_ATTRIBUTE_COLD
#endif /* UFW_CXX_HAS_ATTRIBUTE_COLD */

#if (UFW_CXX_HAS_ATTRIBUTE_DEPRECATED > 0)
/** Show if the active compiler has support for `__attribute__((deprecated))` */
#define HAVE_COMPILER_ATTRIBUTE_DEPRECATED
#endif /* UFW_CXX_HAS_ATTRIBUTE_DEPRECATED */

#if (UFW_CXX_HAS_ATTRIBUTE_HOT > 0)
/** Show if the active compiler has support for `__attribute__((hot))` */
#define HAVE_COMPILER_ATTRIBUTE_HOT
#endif /* UFW_CXX_HAS_ATTRIBUTE_HOT */

#if (UFW_CXX_HAS_ATTRIBUTE_NORETURN > 0)
/** Show if the active compiler has support for `__attribute__((noreturn))` */
#define HAVE_COMPILER_ATTRIBUTE_NORETURN
#endif /* UFW_CXX_HAS_ATTRIBUTE_NORETURN */

#if (UFW_CXX_HAS_ATTRIBUTE_PACKED > 0)
/** Show if the active compiler has support for `__attribute__((packed))` */
#define HAVE_COMPILER_ATTRIBUTE_PACKED
#endif /* UFW_CXX_HAS_ATTRIBUTE_PACKED */

#if (UFW_CXX_HAS_ATTRIBUTE_SECTION > 0)
/** Show if the active compiler has support for `__attribute__((section))` */
#define HAVE_COMPILER_ATTRIBUTE_SECTION
#endif /* UFW_CXX_HAS_ATTRIBUTE_SECTION */

#if (UFW_CXX_HAS_ATTRIBUTE_UNUSED > 0)
/** Show if the active compiler has support for `__attribute__((unused))` */
#define HAVE_COMPILER_ATTRIBUTE_UNUSED
#endif /* UFW_CXX_HAS_ATTRIBUTE_UNUSED */

#if (UFW_CXX_HAS_ATTRIBUTE_WEAK_ALIAS > 0)
/** Show if the active compiler has support for `__attribute__((weak, alias(...)))` */
#define HAVE_COMPILER_ATTRIBUTE_WEAK_ALIAS
#endif /* UFW_CXX_HAS_ATTRIBUTE_WEAK_ALIAS */

#if (UFW_CXX_HAS_ATTRIBUTE_WARN_UNUSED_RESULT > 0)
/** Show if the active compiler has support for `__attribute__((warn_unused_result))` */
#define HAVE_COMPILER_ATTRIBUTE_WARN_UNUSED_RESULT
#endif /* UFW_CXX_HAS_ATTRIBUTE_WARN_UNUSED_RESULT */

#if (UFW_CXX_HAS_BUILTIN_EXPECT > 0)
/** Show if the active compiler has support for `__builtin__((expect))` */
#define HAVE_COMPILER_BUILTIN_EXPECT
#endif /* UFW_CXX_HAS_BUILTIN_EXPECT */

#if (UFW_CXX_HAS_BUILTIN_BSWAP16 > 0)
/** Show if the active compiler has support for `__builtin_bswap16()` */
#define HAVE_COMPILER_BUILTIN_BSWAP16
#endif /* UFW_CXX_HAS_BUILTIN_BSWAP16 */

#if (UFW_CXX_HAS_BUILTIN_BSWAP32 > 0)
/** Show if the active compiler has support for `__builtin_bswap32()` */
#define HAVE_COMPILER_BUILTIN_BSWAP32
#endif /* UFW_CXX_HAS_BUILTIN_BSWAP32 */

#if (UFW_CXX_HAS_BUILTIN_BSWAP64 > 0)
/** Show if the active compiler has support for `__builtin_bswap64()` */
#define HAVE_COMPILER_BUILTIN_BSWAP64
#endif /* UFW_CXX_HAS_BUILTIN_BSWAP64 */

#else

/* C */

#if (UFW_CC_HAS_ATTRIBUTE_COLD > 0)
/** Show if the active compiler has support for `__attribute__((cold))` */
#define HAVE_COMPILER_ATTRIBUTE_COLD
#endif /* UFW_CC_HAS_ATTRIBUTE_COLD */

#if (UFW_CC_HAS_ATTRIBUTE_DEPRECATED > 0)
/** Show if the active compiler has support for `__attribute__((deprecated))` */
#define HAVE_COMPILER_ATTRIBUTE_DEPRECATED
#endif /* UFW_CC_HAS_ATTRIBUTE_DEPRECATED */

#if (UFW_CC_HAS_ATTRIBUTE_HOT > 0)
/** Show if the active compiler has support for `__attribute__((hot))` */
#define HAVE_COMPILER_ATTRIBUTE_HOT
#endif /* UFW_CC_HAS_ATTRIBUTE_HOT */

#if (UFW_CC_HAS_ATTRIBUTE_NORETURN > 0)
/** Show if the active compiler has support for `__attribute__((noreturn))` */
#define HAVE_COMPILER_ATTRIBUTE_NORETURN
#endif /* UFW_CC_HAS_ATTRIBUTE_NORETURN */

#if (UFW_CC_HAS_ATTRIBUTE_PACKED > 0)
/** Show if the active compiler has support for `__attribute__((packed))` */
#define HAVE_COMPILER_ATTRIBUTE_PACKED
#endif /* UFW_CC_HAS_ATTRIBUTE_PACKED */

#if (UFW_CC_HAS_ATTRIBUTE_SECTION > 0)
/** Show if the active compiler has support for `__attribute__((section))` */
#define HAVE_COMPILER_ATTRIBUTE_SECTION
#endif /* UFW_CC_HAS_ATTRIBUTE_SECTION */

#if (UFW_CC_HAS_ATTRIBUTE_UNUSED > 0)
/** Show if the active compiler has support for `__attribute__((unused))` */
#define HAVE_COMPILER_ATTRIBUTE_UNUSED
#endif /* UFW_CC_HAS_ATTRIBUTE_UNUSED */

#if (UFW_CC_HAS_ATTRIBUTE_WEAK_ALIAS > 0)
/** Show if the active compiler has support for `__attribute__((weak, alias(...)))` */
#define HAVE_COMPILER_ATTRIBUTE_WEAK_ALIAS
#endif /* UFW_CC_HAS_ATTRIBUTE_WEAK_ALIAS */

#if (UFW_CC_HAS_ATTRIBUTE_WARN_UNUSED_RESULT > 0)
/** Show if the active compiler has support for `__attribute__((warn_unused_result))` */
#define HAVE_COMPILER_ATTRIBUTE_WARN_UNUSED_RESULT
#endif /* UFW_CC_HAS_ATTRIBUTE_WARN_UNUSED_RESULT */

#if (UFW_CC_HAS_BUILTIN_EXPECT > 0)
/** Show if the active compiler has support for `__builtin__((expect))` */
#define HAVE_COMPILER_BUILTIN_EXPECT
#endif /* UFW_CC_HAS_BUILTIN_EXPECT */

#if (UFW_CC_HAS_BUILTIN_BSWAP16 > 0)
/** Show if the active compiler has support for `__builtin_bswap16()` */
#define HAVE_COMPILER_BUILTIN_BSWAP16
#endif /* UFW_CC_HAS_BUILTIN_BSWAP16 */

#if (UFW_CC_HAS_BUILTIN_BSWAP32 > 0)
/** Show if the active compiler has support for `__builtin_bswap32()` */
#define HAVE_COMPILER_BUILTIN_BSWAP32
#endif /* UFW_CC_HAS_BUILTIN_BSWAP32 */

#if (UFW_CC_HAS_BUILTIN_BSWAP64 > 0)
/** Show if the active compiler has support for `__builtin_bswap64()` */
#define HAVE_COMPILER_BUILTIN_BSWAP64
#endif /* UFW_CC_HAS_BUILTIN_BSWAP64 */

#endif /* __cplusplus */

/* Toolchain Extensions */

/** Reflect toolchain support for address sanitizer */
#define UFW_TOOLCHAIN_FEATURE_SANITIZE_ADDRESS 0
#if (UFW_TOOLCHAIN_FEATURE_SANITIZE_ADDRESS > 0)
#define HAVE_TOOLCHAIN_FEATURE_SANITIZE_ADDRESS
#endif /* UFW_TOOLCHAIN_FEATURE_SANITIZE_ADDRESS */

/** Reflect toolchain support for undefined behaviour sanitizer */
#define UFW_TOOLCHAIN_FEATURE_SANITIZE_UNDEFINED_BEHAVIOUR 0
#if (UFW_TOOLCHAIN_FEATURE_SANITIZE_UNDEFINED_BEHAVIOUR > 0)
#define HAVE_TOOLCHAIN_FEATURE_SANITIZE_UNDEFINED_BEHAVIOUR
#endif /* UFW_TOOLCHAIN_FEATURE_SANITIZE_UNDEFINED_BEHAVIOUR */

/* Toolchain Compatibility */

/** Reflect the availability of sys/types.h */
#define WITH_SYS_TYPES_H 1
#if (WITH_SYS_TYPES_H == 0)
#undef WITH_SYS_TYPES_H
#endif /* WITH_SYS_TYPES_H */

/** Reflect the availability of unistd.h */
#define WITH_UNISTD_H 1
#if (WITH_UNISTD_H == 0)
#undef WITH_UNISTD_H
#endif /* WITH_UNISTD_H */

/** Reflect the availability of uint8_t */
#define WITH_UINT8_T 1

#if (WITH_UINT8_T > 0)
/** The size of uint8_t */
/* #undef UINT8_T_SIZE */
#endif /* WITH_UINT8_T */

#if (WITH_UINT8_T == 0)
#undef WITH_UINT8_T
#endif /* WITH_UINT8_T */

/** Reflect the availability of ctype's isprint() */
#define UFW_HAVE_CTYPE_ISPRINT 1
#if (UFW_HAVE_CTYPE_ISPRINT == 0)
#undef UFW_HAVE_CTYPE_ISPRINT
#endif /* UFW_HAVE_CTYPE_ISPRINT */

/** Reflect the availability of POSIX style read() */
#define UFW_HAVE_POSIX_READ 1
#if (UFW_HAVE_POSIX_READ == 0)
#undef UFW_HAVE_POSIX_READ
#endif /* UFW_HAVE_POSIX_READ */

/** Reflect the availability of POSIX style write() */
#define UFW_HAVE_POSIX_WRITE 1
#if (UFW_HAVE_POSIX_WRITE == 0)
#undef UFW_HAVE_POSIX_WRITE
#endif /* UFW_HAVE_POSIX_WRITE */

/** Reflect the availability of strlcat() */
#define UFW_COMPAT_HAVE_STRLCAT 0
#if (UFW_COMPAT_HAVE_STRLCAT == 0)
#undef UFW_COMPAT_HAVE_STRLCAT
#endif /* UFW_COMPAT_HAVE_STRLCAT */

/** Reflect the availability of strlcpy() */
#define UFW_COMPAT_HAVE_STRLCPY 0
#if (UFW_COMPAT_HAVE_STRLCPY == 0)
#undef UFW_COMPAT_HAVE_STRLCPY
#endif /* UFW_COMPAT_HAVE_STRLCPY */

/** Reflect the availability of strnlen() */
#define UFW_COMPAT_HAVE_STRNLEN 1
#if (UFW_COMPAT_HAVE_STRNLEN == 0)
#undef UFW_COMPAT_HAVE_STRNLEN
#endif /* UFW_COMPAT_HAVE_STRNLEN */

/**
 * UFW errno compatibility offset
 *
 * In order to implement error numbers missing from some toolchains, this is
 * the offset used at which the library defines its additions. Usually errnos
 * are a hundred or so values. The default is at 2^14 which should be plenty or
 * space. This is still configurable at compile time, if needed.
 */
#define UFW_PRIVATE_ERRNO_OFFSET 16384

#endif /* INC_UFW_TOOLCHAIN_H */
