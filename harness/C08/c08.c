/* C08: every emitted frame is spec-conformant and round-trips through the receiver.
 * Unit: src/register-protocol.c (#include'd) + continuable-sink.c, byte-buffer.c,
 * allocator.c, endpoints/core.c; framing layer = contract stubs (the stub records
 * WHICH framer send_memory selected, in which mode, and the octets handed to it;
 * that the framers put exactly those octets on the wire is C12 / C13). */
#include "../regp/regp_common.h"

#define NENTRY 17

struct vp_in {
    uint8_t mem16;
    uint8_t entry;
    uint16_t session_seq;
    uint32_t addr, n32, val;
    uint8_t npl, null_pl;
    uint16_t plw[PW]; /* payload as the caller holds it: octets or 16-bit words */
    uint8_t ftype;
    uint16_t fseq;
    uint32_t faddr;
    uint8_t meta;
    uint8_t garbage[8];
};
VP_DECLARE_INPUT();

void harness(void)
{
    VP_INPUT(in);
#ifdef TCP
    const bool tcp = true;
#else
    const bool tcp = false;
#endif
#ifdef ENTRY_LO
    VP_ASSUME(in.entry >= ENTRY_LO && in.entry <= ENTRY_HI);
#endif
    VP_ASSUME(in.mem16 <= 1 && in.entry < NENTRY && in.npl <= PW && in.null_pl <= 1);
    VP_ASSUME(in.ftype == RP_FRAME_READ_REQUEST || in.ftype == RP_FRAME_WRITE_REQUEST);
    VP_ASSUME(in.meta >= 1 && in.meta <= 2);
    for (unsigned i = 0; i < 8; ++i)
        vp_al.garbage[i] = in.garbage[i];
    vp_regp_setup(tcp, in.mem16);
    vp_p.session.sequence = in.session_seq;

    /* the request a response answers */
    RPFrame rq;
    memset(&rq, 0, sizeof rq);
    rq.header.type = (RPFrameType)in.ftype;
    rq.header.sequence = in.fseq;
    rq.header.address = in.faddr;

    /* caller-side payload memory: exact extent */
    uint8_t pl8[PW];
    uint16_t pl16[PW];
    for (unsigned i = 0; i < PW; ++i) {
        pl8[i] = (uint8_t)in.plw[i];
        pl16[i] = in.plw[i];
    }
    const unsigned npl = in.npl;

    struct ref_frame e = { 0 };
    const uint8_t thd = tcp ? 0 : RP_OPT_WITH_HEADER_CRC;
    const uint8_t tpl = tcp ? 0 : RP_OPT_WITH_PAYLOAD_CRC;
    bool is_request = false;
    int rc = -1;

    switch (in.entry) {
    case 0: case 1: /* read requests */
        is_request = true;
        rc = in.entry == 0 ? regp_req_read8(&vp_p, in.addr, in.n32) : regp_req_read16(&vp_p, in.addr, in.n32);
        e.type = RP_FRAME_READ_REQUEST;
        e.options = (uint8_t)(thd | (in.entry == 1 ? RP_OPT_WORD_SIZE_16 : 0));
        e.seq = in.session_seq; e.addr = in.addr; e.bs = in.n32;
        break;
    case 2: /* write request, octets */
        is_request = true;
        rc = regp_req_write8(&vp_p, in.addr, npl, pl8 + (PW - npl));
        e.type = RP_FRAME_WRITE_REQUEST;
        e.options = (uint8_t)(thd | (npl ? tpl : 0));
        e.seq = in.session_seq; e.addr = in.addr; e.bs = npl; e.plen = (uint16_t)npl;
        for (unsigned i = 0; i < PW; ++i)
            if (i < npl)
                e.pl[i] = pl8[PW - npl + i];
        break;
    case 3: /* write request, 16-bit words */
        is_request = true;
        rc = regp_req_write16(&vp_p, in.addr, npl, pl16 + (PW - npl));
        e.type = RP_FRAME_WRITE_REQUEST;
        e.options = (uint8_t)(thd | RP_OPT_WORD_SIZE_16 | (npl ? tpl : 0));
        e.seq = in.session_seq; e.addr = in.addr; e.bs = npl; e.plen = (uint16_t)(2 * npl);
        for (unsigned i = 0; i < PW; ++i)
            if (i < npl) {
                /* memory image of the words (little-endian host) */
                e.pl[2 * i] = (uint8_t)(pl16[PW - npl + i] & 0xff);
                e.pl[2 * i + 1] = (uint8_t)(pl16[PW - npl + i] >> 8);
            }
        break;
    case 4: { /* acknowledgement, with or without payload, in the memory's word size */
        const bool nopl = in.null_pl;
        const unsigned n = nopl ? 0 : npl;
        const void *p = nopl ? NULL : (in.mem16 ? (const void *)(pl16 + (PW - n)) : (const void *)(pl8 + (PW - n)));
        rc = regp_resp_ack(&vp_p, &rq, p, n);
        e.type = (in.ftype == RP_FRAME_READ_REQUEST) ? RP_FRAME_READ_RESPONSE : RP_FRAME_WRITE_RESPONSE;
        e.meta = RP_RESP_ACK;
        e.options = (uint8_t)(thd | (in.mem16 ? RP_OPT_WORD_SIZE_16 : 0) | (n ? tpl : 0));
        e.seq = in.fseq; e.addr = in.faddr; e.bs = n;
        e.plen = (uint16_t)(n * (in.mem16 ? 2 : 1));
        for (unsigned i = 0; i < PW; ++i)
            if (i < n) {
                if (in.mem16) {
                    e.pl[2 * i] = (uint8_t)(pl16[PW - n + i] & 0xff);
                    e.pl[2 * i + 1] = (uint8_t)(pl16[PW - n + i] >> 8);
                } else {
                    e.pl[i] = pl8[PW - n + i];
                }
            }
        break;
    }
    case 16:
        rc = regp_resp_meta(&vp_p, in.meta);
        e.type = RP_FRAME_META;
        e.meta = in.meta;
        e.options = thd;
        break;
    default: { /* the eleven error responses */
        uint8_t code;
        bool with32 = false;
        switch (in.entry) {
        case 5: rc = regp_resp_ewordsize(&vp_p, &rq); code = RP_RESP_EWORDSIZE; break;
        case 6: rc = regp_resp_epayloadcrc(&vp_p, &rq); code = RP_RESP_EPAYLOADCRC; break;
        case 7: rc = regp_resp_epayloadsize(&vp_p, &rq); code = RP_RESP_EPAYLOADSIZE; break;
        case 8: rc = regp_resp_erxoverflow(&vp_p, &rq, in.val); code = RP_RESP_ERXOVERFLOW; with32 = true; break;
        case 9: rc = regp_resp_etxoverflow(&vp_p, &rq, in.val); code = RP_RESP_ETXOVERFLOW; with32 = true; break;
        case 10: rc = regp_resp_ebusy(&vp_p, &rq); code = RP_RESP_EBUSY; break;
        case 11: rc = regp_resp_eunmapped(&vp_p, &rq, in.val); code = RP_RESP_EUNMAPPED; with32 = true; break;
        case 12: rc = regp_resp_eaccess(&vp_p, &rq, in.val); code = RP_RESP_EACCESS; with32 = true; break;
        case 13: rc = regp_resp_erange(&vp_p, &rq, in.val); code = RP_RESP_ERANGE; with32 = true; break;
        case 14: rc = regp_resp_einvalid(&vp_p, &rq, in.val); code = RP_RESP_EINVALID; with32 = true; break;
        default: rc = regp_resp_eio(&vp_p, &rq); code = RP_RESP_EIO; break;
        }
        e.type = (in.ftype == RP_FRAME_READ_REQUEST) ? RP_FRAME_READ_RESPONSE : RP_FRAME_WRITE_RESPONSE;
        e.meta = code;
        e.seq = in.fseq; e.addr = in.faddr;
        e.options = thd; /* octet semantics */
        if (with32) {
            e.options |= tpl;
            e.bs = 4; e.plen = 4;
            e.pl[0] = (uint8_t)(in.val >> 24); e.pl[1] = (uint8_t)(in.val >> 16);
            e.pl[2] = (uint8_t)(in.val >> 8); e.pl[3] = (uint8_t)in.val;
        }
        break;
    }
    }

    VP_ASSERT(rc == 0, "C08.emitter-reports-success");
    VP_ASSERT(vp_tx_frames == 1, "C08.exactly-one-frame-emitted");
    VP_ASSERT(vp_tx->framer == (tcp ? 2 : 1), "C08.slip-classic-on-serial-varint-prefix-on-tcp");
    VP_ASSERT(tx_is(vp_tx, &e, tcp), "C08.frame-octets-as-the-document-prescribes");
    if (is_request)
        VP_ASSERT(vp_p.session.sequence == (uint16_t)(in.session_seq + 1), "C08.request-sequence-increments-mod-2-16");
    else
        VP_ASSERT(vp_p.session.sequence == in.session_seq, "C08.responses-leave-the-session-alone");

    /* ---- feed the emitted frame to the library's own receiver */
    unsigned flen = vp_tx->hlen + vp_tx->plen;
    VP_ASSUME(flen <= LMAX); /* holds by the assertions above: header <= 16, payload <= 2*PW */
    vp_rx.len = (uint8_t)flen;
    for (unsigned i = 0; i < LMAX; ++i) {
        uint8_t o = 0;
        if (i < vp_tx->hlen)
            o = vp_tx->hdr[i < 16 ? i : 15];
        else if (i < flen) {
            unsigned j = i - vp_tx->hlen;
            o = (j < 4) ? vp_tx->pl4[j] : vp_tx->plptr[j];
        }
        vp_rx.oct[i] = o;
    }
    vp_rx.err_after = 0xff;
    vp_tx_frames = 0;
    RPMaybeFrame mf;
    const int rr = regp_recv(&vp_p, &mf);
    VP_ASSERT(rr == 0 && mf.error.id == 0 && mf.frame != NULL, "C08.own-receiver-accepts-the-frame");
    if (mf.frame != NULL && mf.error.id == 0) {
        const RPFrame *f = mf.frame;
        VP_ASSERT((uint8_t)f->header.type == e.type && f->header.options == e.options && f->header.meta.raw == e.meta,
                  "C08.loop.type-options-code");
        VP_ASSERT(f->header.sequence == e.seq && f->header.address == e.addr && f->header.blocksize == e.bs,
                  "C08.loop.sequence-address-blocksize");
        VP_ASSERT(f->payload.size == e.plen, "C08.loop.payload-size");
        for (unsigned i = 0; i < 2 * PW + 4; ++i)
            if (i < e.plen && i < sizeof e.pl)
                VP_ASSERT(((const uint8_t *)f->payload.data)[i] == e.pl[i], "C08.loop.payload-octets");
    }
    VP_ASSERT(vp_tx_frames == 0, "C08.loop.receiver-sends-nothing");
    regp_free(&vp_p, mf.frame);
    VP_ASSERT(vp_ledger_balanced(), "C08.loop.block-released");

#if !defined(ENTRY_LO) || (ENTRY_LO <= 3 && 3 <= ENTRY_HI)
    VP_WITNESS(in.entry == 3 && npl == PW && in.session_seq == 0xffff, "C08.write16-seq-wrap.reach");
    VP_WITNESS(in.entry == 1 && in.n32 > 0x10000u, "C08.read16.reach");
    VP_WITNESS(in.entry == 2 && npl == 1 && pl8[PW - 1] == 0xc0, "C08.write8-slip-end-octet.reach");
#endif
#if !defined(ENTRY_LO) || (ENTRY_LO <= 4 && 4 <= ENTRY_HI)
    VP_WITNESS(in.entry == 4 && !in.null_pl && npl == PW && in.mem16 && in.ftype == RP_FRAME_READ_REQUEST, "C08.ack-payload.reach");
    VP_WITNESS(in.entry == 4 && in.null_pl && in.ftype == RP_FRAME_WRITE_REQUEST, "C08.ack-no-payload.reach");
#endif
#if !defined(ENTRY_LO) || (ENTRY_LO <= 8 && 8 <= ENTRY_HI)
    VP_WITNESS(in.entry == 8 && in.ftype == RP_FRAME_WRITE_REQUEST && in.val == 128, "C08.write-erxoverflow.reach");
    VP_WITNESS(in.entry == 10, "C08.ebusy.reach");
#endif
#if !defined(ENTRY_LO) || (ENTRY_LO <= 12 && 12 <= ENTRY_HI)
    VP_WITNESS(in.entry == 12 && in.ftype == RP_FRAME_WRITE_REQUEST && in.val == 0xc0dbc0dbu, "C08.write-eaccess-slip-octets.reach");
    VP_WITNESS(in.entry == 15 && in.ftype == RP_FRAME_READ_REQUEST, "C08.eio.reach");
    VP_WITNESS(in.entry == 16 && in.meta == 2, "C08.meta.reach");
#endif
}
VP_MAIN_EPILOGUE()
