/* C09: receiving and processing arbitrary input is memory-safe and resource-exact.
 * Unit: src/register-protocol.c (#include'd) + continuable-sink.c, byte-buffer.c,
 * allocator.c, endpoints/core.c; framing layer = contract stubs.
 * The allocator block is an object of EXACTLY blocksize octets (enumerated by
 * the driver: sizeof(RPFrame)+KEXTRA) with arbitrary initial contents, so every
 * access outside it is a CBMC bounds failure; the backend stub asserts that the
 * buffer it is handed covers the announced block; the allocator stub keeps a
 * ledger. */
#ifdef CHUNKED
#define VP_RX_CHUNKED /* the deframer delivers two chunks instead of single octets */
#endif
#include "../regp/regp_common.h"

struct vp_in {
    uint8_t mem16;
    uint8_t alloc_fails;
    struct vp_backend_script bs;
    uint8_t garbage[8];
    struct vp_rx_script rx;
    int32_t txerr; /* MODE_TXERR: what the transmitting side reports for every frame */
};
VP_DECLARE_INPUT();

/* does o[0..n) start with a complete, valid header? (header-level part of the
 * reference classifier) */
static bool header_ok(const uint8_t *o, unsigned n, struct ref_frame *f)
{
    uint8_t tmp[LMAX];
    for (unsigned i = 0; i < LMAX; ++i)
        tmp[i] = (i < n) ? o[i] : 0;
    int v = ref_classify(tmp, n, f);
    return v != REF_BADHEADER && v != REF_BADHDCRC;
}

void harness(void)
{
    VP_INPUT(in);
#ifdef ALLOC_FAILS
    /* enumerated by the driver: a constant keeps the continuable sink's state
     * concrete per delivered octet (10x smaller query) */
    in.alloc_fails = ALLOC_FAILS;
#endif
#ifdef TCP
    const bool tcp = true;
#else
    const bool tcp = false;
#endif
    VP_ASSUME(in.mem16 <= 1 && in.alloc_fails <= 1);
    VP_ASSUME(in.bs.status <= RP_RESP_EIO);
    VP_ASSUME(in.rx.len <= LMAX);
    for (unsigned i = 0; i < 8; ++i)
        vp_al.garbage[i] = in.garbage[i];
    vp_regp_setup(tcp, in.mem16);
    vp_bs = in.bs;
    vp_al.fail_next[0] = in.alloc_fails;
#ifdef SPLIT
    in.rx.split = SPLIT; /* enumerated by the driver (constant keeps the sink's state concrete) */
#endif
    vp_rx = in.rx;
    const unsigned len = in.rx.len;

#if defined(MODE_SRCERR)
    /* the channel fails after a prefix of the frame */
    VP_ASSUME(in.rx.err < 0 && in.rx.err_after <= len);
    VP_ASSUME(!(in.rx.err_after == len && len == LMAX));
    RPMaybeFrame mf;
    const int rc = regp_recv(&vp_p, &mf);
    VP_ASSERT(rc == in.rx.err, "C09.channel-error-returned-unchanged");
    VP_ASSERT(vp_ledger_balanced(), "C09.channel-error-block-released-by-receiver");
    VP_ASSERT(vp_al.allocs <= 1 && vp_al.frees <= 1, "C09.channel-error-at-most-one-block");
    VP_ASSERT(vp_bl.calls == 0, "C09.channel-error-no-memory-access");
#if !defined(ALLOC_FAILS) || !ALLOC_FAILS
    VP_WITNESS(in.rx.err_after >= 13 && !in.alloc_fails && vp_al.frees == 1, "C09.srcerr.block-freed.reach");
#endif
    VP_WITNESS(in.rx.err_after == 0, "C09.srcerr.nothing-received.reach");
    return;
#elif defined(MODE_TXERR)
    /* the transmitter fails: whatever regp_recv/regp_process try to send is
     * refused with in.txerr. The documented loop goes on regardless:
     *   rc = regp_recv(); [error handling]; regp_process(); regp_free(mf.frame) */
    VP_ASSUME(in.txerr < 0);
    vp_tx_err = in.txerr;
    vp_rx.err_after = 0xff;
    RPMaybeFrame mf;
    const int rc = regp_recv(&vp_p, &mf);
    const unsigned sent_by_recv = vp_tx_frames;
    VP_ASSERT(rc == 0 || rc == in.txerr, "C09.txerr.recv-returns-zero-or-the-sink-error");
    const bool executed_by_recv = vp_bl.calls != 0;
    VP_ASSERT(!executed_by_recv, "C09.txerr.recv-never-touches-memory");
    const int rcp = regp_process(&vp_p, &mf);
    VP_ASSERT(rcp == 0 || rcp == in.txerr, "C09.txerr.process-returns-zero-or-the-sink-error");
    if (mf.error.id != 0)
        VP_ASSERT(vp_bl.calls == 0, "C09.txerr.failed-reception-never-executed");
    if (len > 0 && len <= KEXTRA && !in.alloc_fails) {
        struct ref_frame rf = { 0 };
        const int verdict = ref_classify(vp_rx.oct, len, &rf);
        if (verdict != REF_OK && verdict != REF_SIZE_EITHER)
            VP_ASSERT(vp_bl.calls == 0, "C09.txerr.frame-failing-the-independent-reading-never-executed");
#if KEXTRA >= 14 && (!defined(ALLOC_FAILS) || !ALLOC_FAILS)
        VP_WITNESS(verdict == REF_BADHDCRC && sent_by_recv == 1 && rc == in.txerr, "C09.txerr.meta-send-fails.reach");
        VP_WITNESS(verdict == REF_OK && vp_bl.calls == 1 && rcp == in.txerr, "C09.txerr.executed-reply-fails.reach");
#endif
    } else {
        VP_ASSERT(vp_bl.calls == 0, "C09.txerr.oversized-empty-or-busy-never-executed");
    }
    regp_free(&vp_p, mf.frame);
    VP_ASSERT(vp_ledger_balanced(), "C09.txerr.every-block-released-exactly-once");
    VP_ASSERT(vp_al.frees == vp_al.granted, "C09.txerr.ledger-counts");
#if KEXTRA >= 14 && KEXTRA < LMAX && (!defined(ALLOC_FAILS) || !ALLOC_FAILS)
    VP_WITNESS(len > KEXTRA && sent_by_recv == 1 && rc == in.txerr, "C09.txerr.overflow-reply-fails.reach");
#endif
#if defined(ALLOC_FAILS) && ALLOC_FAILS
    VP_WITNESS(sent_by_recv == 1 && rc == in.txerr && mf.error.id == EBUSY, "C09.txerr.busy-reply-fails.reach");
#endif
    return;
#else
    vp_rx.err_after = 0xff;
    RPMaybeFrame mf;
    const int rc = regp_recv(&vp_p, &mf);
    VP_ASSERT(rc == 0, "C09.recv-returns-zero");
    VP_ASSERT(vp_al.allocs <= 1, "C09.at-most-one-allocation");

    struct ref_frame hf = { 0 };
    /* what regp_recv can know about the header when it has to answer early:
     * at most the first 16 octets, and for an overflow only what fitted */
    const unsigned early_n = len < 16 ? len : 16;
    const unsigned ovfl_n = early_n < KEXTRA ? early_n : KEXTRA;

    if (len == 0) {
        /* an empty frame allocates nothing */
        VP_ASSERT(mf.error.id == EBADMSG, "C09.empty-frame-is-bad-header-encoding");
        struct ref_frame m = expect_meta(RP_META_EHEADERENC, tcp);
        VP_ASSERT(vp_tx_frames == 1 && tx_is(vp_tx, &m, tcp), "C09.empty-frame-meta-sent");
    } else if (in.alloc_fails) {
        VP_ASSERT(mf.error.id == EBUSY && mf.frame == NULL, "C09.allocation-failure-reported-busy");
        if (header_ok(vp_rx.oct, early_n, &hf) && ref_is_request(hf.type)) {
            struct ref_frame e = expect_error_reply(&hf, RP_RESP_EBUSY, tcp);
            VP_ASSERT(vp_tx_frames == 1 && tx_is(vp_tx, &e, tcp), "C09.allocation-failure-busy-response");
        }
#if !defined(ALLOC_FAILS) || ALLOC_FAILS
        VP_WITNESS(vp_tx_frames == 1 && ref_is_request(hf.type) && vp_tx->hdr[0] >> 4 == RP_RESP_EBUSY,
                   "C09.busy-response.reach");
#endif
    } else if (len > KEXTRA) {
        VP_ASSERT(mf.error.id == ENOMEM, "C09.oversized-frame-reported");
        if (header_ok(vp_rx.oct, ovfl_n, &hf) && ref_is_request(hf.type)) {
            /* receive-overflow response; with or without the size payload */
            struct ref_frame e0 = expect_error_reply(&hf, RP_RESP_ERXOVERFLOW, tcp);
            struct ref_frame e4 = e0;
            e4.options |= tcp ? 0 : RP_OPT_WITH_PAYLOAD_CRC;
            e4.bs = 4; e4.plen = 4;
            e4.pl[0] = 0; e4.pl[1] = 0; e4.pl[2] = (uint8_t)(KEXTRA >> 8); e4.pl[3] = (uint8_t)KEXTRA;
            VP_ASSERT(vp_tx_frames == 1 && (tx_is(vp_tx, &e0, tcp) || tx_is(vp_tx, &e4, tcp)),
                      "C09.oversized-frame-receive-overflow-response");
        }
#if !defined(ALLOC_FAILS) || !ALLOC_FAILS
#if KEXTRA >= 14 && KEXTRA < LMAX
        VP_WITNESS(vp_tx_frames == 1 && ref_is_request(hf.type) && vp_tx->hdr[0] >> 4 == RP_RESP_ERXOVERFLOW,
                   "C09.rxoverflow-response.reach");
#elif KEXTRA < LMAX
        VP_WITNESS(vp_tx_frames == 1 && len == LMAX, "C09.oversized-frame-tiny-block.reach");
#endif
#endif
    } else {
        /* the frame fits: verdict as the independent reading says */
        struct ref_frame rf = { 0 };
        int verdict = ref_classify(vp_rx.oct, len, &rf);
        if (verdict == REF_SIZE_EITHER)
            VP_ASSERT(mf.error.id == 0 || mf.error.id == EFAULT, "C09.verdict-either");
        else
            VP_ASSERT(mf.error.id == ref_errno(verdict), "C09.verdict-equals-independent-reading");
        if (len < 12) {
            struct ref_frame m = expect_meta(RP_META_EHEADERENC, tcp);
            VP_ASSERT(mf.error.id == EBADMSG && vp_tx_frames == 1 && tx_is(vp_tx, &m, tcp),
                      "C09.short-frame-is-bad-header-encoding");
        }
        VP_ASSERT(mf.frame != NULL, "C09.frame-returned-for-inspection");
        hf = rf;
    }
    const unsigned sent_by_recv = vp_tx_frames;
    const int rcp = regp_process(&vp_p, &mf);
    VP_ASSERT(rcp == 0, "C09.process-returns-zero");
    if (mf.error.id != 0)
        VP_ASSERT(vp_bl.calls == 0, "C09.failed-reception-never-executed");
    if (mf.error.id == 0 && hf.type == RP_FRAME_READ_REQUEST && ((hf.options & RP_OPT_WORD_SIZE_16) != 0) == (in.mem16 != 0)) {
        /* transmit limit: answer does not fit the buffer => refused without
         * touching memory, carrying the buffer size; fits behind the request
         * header => executed; in between either */
        const uint64_t want = (uint64_t)hf.bs * (in.mem16 ? 2 : 1);
        if (want > KEXTRA) {
            struct ref_frame e = expect_error_reply(&hf, RP_RESP_ETXOVERFLOW, tcp);
            e.options |= tcp ? 0 : RP_OPT_WITH_PAYLOAD_CRC;
            e.bs = 4; e.plen = 4;
            e.pl[0] = 0; e.pl[1] = 0; e.pl[2] = (uint8_t)(KEXTRA >> 8); e.pl[3] = (uint8_t)KEXTRA;
            VP_ASSERT(vp_bl.calls == 0, "C09.read-too-large-memory-untouched");
            VP_ASSERT(vp_tx_frames == 1 && tx_is(vp_tx, &e, tcp), "C09.read-too-large-transmit-overflow-with-buffer-size");
        } else if (want + len <= KEXTRA) {
            VP_ASSERT(vp_bl.calls == 1, "C09.read-that-fits-is-executed");
        }
#if (!defined(ALLOC_FAILS) || !ALLOC_FAILS) && KEXTRA >= 12
        VP_WITNESS(vp_bl.calls == 0 && want == KEXTRA + 1u, "C09.txoverflow-at-limit.reach");
#if KEXTRA >= 14
        VP_WITNESS(vp_bl.calls == 1 && want + len == KEXTRA && want > 0, "C09.read-exactly-fits.reach");
#endif
#endif
    }
    (void)sent_by_recv;
    VP_ASSERT(vp_tx_frames <= 1, "C09.at-most-one-reply");
    regp_free(&vp_p, mf.frame);
    VP_ASSERT(vp_ledger_balanced(), "C09.every-block-released-exactly-once");
    /* whatever was granted has been released (whether the receiver allocates
     * lazily or eagerly is its own business) */
    VP_ASSERT(vp_al.frees == vp_al.granted, "C09.ledger-counts");
    VP_WITNESS(len == 0, "C09.empty-frame.reach");
#if (!defined(ALLOC_FAILS) || !ALLOC_FAILS) && KEXTRA >= 11
    VP_WITNESS(len == 11 && !in.alloc_fails && len <= KEXTRA, "C09.short-frame.reach");
#endif
#endif
}
VP_MAIN_EPILOGUE()
