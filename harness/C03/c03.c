/* C03: block reads and range iteration follow the flat address-space model.
 * Unit: src/registers/core.c (#include'd). */
#include "../regs/regs_common.h"

#ifndef NMAX
#define NMAX 5
#endif

#define NLOG (NREG + 2)

struct vp_in {
    struct vp_table t;
    RegisterAtom mem[NAREA][AWORDS];
    uint32_t addr;
    uint8_t n;
    RegisterAtom bufinit[NMAX];
    /* iteration */
    uint32_t off;
    int8_t script[NLOG];
};
VP_DECLARE_INPUT();

static struct vp_in in_g;
static unsigned log_n;
static RegisterHandle log_h[NLOG];
static bool cb_args_ok = true;
static int cb_cookie;

static int iter_cb(RegisterTable *t, RegisterHandle h, void *arg)
{
    if (t != &vp_t || arg != (void *)&cb_cookie)
        cb_args_ok = false;
    int rv = 0;
    if (log_n < NLOG) {
        log_h[log_n] = h;
        rv = in_g.script[log_n];
    }
    ++log_n;
    return rv;
}

void harness(void)
{
    VP_INPUT(in);
    in_g = in;
    const struct vp_table *d = &in.t;
    VP_ASSUME(vp_desc_wellformed(d));
    for (unsigned i = 0; i < NAREA; ++i) {
        VP_ASSUME(d->a[i].base <= VP_ADDR_LIMIT);
#ifdef MODE_ITER
        VP_ASSUME(d->a[i].has_read == 1);
#endif
    }
    for (unsigned i = 0; i < NREG; ++i)
        VP_ASSUME(d->e[i].address <= VP_ADDR_LIMIT);
    VP_ASSUME(ref_layout_ok(d));
    vp_link_direct(d);
    for (unsigned a = 0; a < NAREA; ++a)
        for (unsigned w = 0; w < AWORDS; ++w)
            vp_mem[a][w] = in.mem[a][w];
    struct vp_snapshot before;
    vp_snap(&before);

#if defined(MODE_READ)
#ifdef NFIX
    /* the driver enumerates the read length: one query per n, buffer of exactly n words */
    VP_ASSUME(in.n == NFIX);
    const unsigned n = NFIX;
#else
    VP_ASSUME(in.n <= NMAX);
    const unsigned n = in.n;
#endif
#ifdef VP_REPLAY
    /* exact-size heap block with a guard word on each side (ASan red zones) */
    RegisterAtom *blk = malloc(n ? n * sizeof(RegisterAtom) : 1);
    memcpy(blk, in.bufinit + (NMAX - n), n * sizeof(RegisterAtom));
    RegisterAtom arr[NMAX];
    memcpy(arr, in.bufinit, sizeof arr);
#else
    RegisterAtom arr[NMAX];
    for (unsigned i = 0; i < NMAX; ++i)
        arr[i] = in.bufinit[i];
    RegisterAtom *blk = arr + (NMAX - n);
#endif
    RegisterAccess r = register_block_read(&vp_t, in.addr, n, blk);

    bool all_mapped = true;
    uint32_t first_hole = 0;
    for (unsigned i = 0; i < NMAX; ++i) {
        if (i >= n)
            break;
        if (ref_area_of(d, in.addr + i) < 0) {
            all_mapped = false;
            first_hole = in.addr + i;
            break;
        }
    }
    VP_ASSERT((r.code == REG_ACCESS_SUCCESS) == all_mapped, "C03.read.succeeds-iff-all-mapped");
    if (n == 0)
        VP_ASSERT(r.code == REG_ACCESS_SUCCESS, "C03.read.zero-length-succeeds");
    if (r.code == REG_ACCESS_SUCCESS) {
        for (unsigned i = 0; i < NMAX; ++i) {
            if (i >= n)
                break;
            uint32_t a = in.addr + i;
            int ai = ref_area_of(d, a);
            RegisterAtom want = ref_area_block_readable(&d->a[ai]) ? in.mem[ai][a - d->a[ai].base] : 0;
            VP_ASSERT(blk[i] == want, "C03.read.word-is-stored-word-or-zero");
        }
    } else if (!all_mapped) {
        VP_ASSERT(r.code == REG_ACCESS_NOENTRY && r.address == first_hole,
                  "C03.read.reports-first-unmapped-address");
    }
#ifndef VP_REPLAY
    /* words of the caller's array in front of the n-word window */
    for (unsigned i = 0; i < NMAX; ++i)
        if (i < NMAX - n)
            VP_ASSERT(arr[i] == in.bufinit[i], "C03.read.nothing-written-before-buffer");
#endif
    VP_ASSERT(vp_mem_equal(&before), "C03.read.table-unchanged");
#if !defined(NFIX) || NFIX >= 3
    VP_WITNESS(r.code == REG_ACCESS_SUCCESS && d->nareas == NAREA &&
                   ref_area_of(d, in.addr) != ref_area_of(d, in.addr + n - 1) &&
                   in.addr != d->a[ref_area_of(d, in.addr)].base &&
                   !ref_area_block_readable(&d->a[ref_area_of(d, in.addr)]),
               "C03.read.mid-area-start-nonreadable-spanning.reach");
    VP_WITNESS(r.code == REG_ACCESS_NOENTRY && first_hole == in.addr + 2, "C03.read.hole-later.reach");
#endif
#if !defined(NFIX) || NFIX >= 1
    VP_WITNESS(r.code == REG_ACCESS_SUCCESS && d->a[ref_area_of(d, in.addr)].custom &&
                   in.addr > d->a[ref_area_of(d, in.addr)].base,
               "C03.read.custom-area.reach");
    VP_WITNESS(r.code == REG_ACCESS_NOENTRY && first_hole == in.addr && in.addr > 0x80000000u,
               "C03.read.unmapped-high-address.reach");
#else
    VP_WITNESS(r.code == REG_ACCESS_SUCCESS && ref_area_of(d, in.addr) < 0, "C03.read.zero-length-in-hole.reach");
#endif
#ifdef VP_REPLAY
    free(blk);
#endif

#elif defined(MODE_ITER)
    /* no wrap-around of the range (the documented whole-table idiom with
     * REGISTER_ADDRESS_MAX is outside the claim) */
    VP_ASSUME((uint64_t)in.addr + in.off <= 0x100000000ull);
    for (unsigned k = 0; k < NLOG; ++k)
        VP_ASSUME(in.script[k] >= -2 && in.script[k] <= 2);
    RegisterAccess r = register_foreach_in(&vp_t, in.addr, in.off, iter_cb, &cb_cookie);

    /* reference: registers overlapping [addr, addr+off), ascending, cut at the
     * first non-zero script value */
    unsigned want_n = 0;
    RegisterHandle want[NLOG];
    bool stopped = false, failed = false;
    uint32_t fail_addr = 0;
    for (unsigned j = 0; j < NREG; ++j) {
        if (j >= d->nentries || stopped)
            break;
        uint64_t lo = d->e[j].address, hi = lo + ref_size(d->e[j].type);
        if (in.off != 0 && hi > in.addr && lo < (uint64_t)in.addr + in.off) {
            want[want_n] = j;
            int s = in.script[want_n];
            ++want_n;
            if (s != 0) {
                stopped = true;
                if (s < 0) {
                    failed = true;
                    fail_addr = d->e[j].address;
                }
            }
        }
    }
    VP_ASSERT(cb_args_ok, "C03.iter.callback-arguments");
    VP_ASSERT(log_n == want_n, "C03.iter.exactly-the-overlapping-registers");
    for (unsigned k = 0; k < NLOG; ++k)
        if (k < want_n && k < log_n)
            VP_ASSERT(log_h[k] == want[k], "C03.iter.ascending-order");
    if (failed)
        VP_ASSERT(r.code == REG_ACCESS_FAILURE && r.address == fail_addr, "C03.iter.negative-is-failure-at-register");
    else
        VP_ASSERT(r.code == REG_ACCESS_SUCCESS, "C03.iter.success-otherwise");
    VP_ASSERT(vp_mem_equal(&before), "C03.iter.table-unchanged");
    VP_WITNESS(want_n == NREG && !stopped, "C03.iter.all-registers.reach");
    VP_WITNESS(want_n >= 2 && ref_area_of(d, in.addr) < 0, "C03.iter.start-in-hole.reach");
    VP_WITNESS(want_n >= 1 && ref_area_of(d, in.addr) >= 0 && d->e[want[0]].address > in.addr,
               "C03.iter.start-in-gap.reach");
    VP_WITNESS(want_n >= 1 && d->e[want[0]].address < in.addr && ref_size(d->e[want[0]].type) == 4,
               "C03.iter.start-inside-64bit.reach");
    VP_WITNESS(failed && want_n == 2, "C03.iter.fail-at-second.reach");
    VP_WITNESS(stopped && !failed && want_n == 1 && d->nentries == NREG, "C03.iter.positive-stop.reach");
#else
#error "no MODE"
#endif
}
VP_MAIN_EPILOGUE()
