/* vp.h -- dual-mode harness macros.
 *
 * CBMC mode (default): inputs are nondeterministic, VP_ASSUME/VP_ASSERT map to
 * __CPROVER_assume/__CPROVER_assert, VP_WITNESS(c, l) is an assertion that MUST
 * fail (reachability witness: "c can happen").
 *
 * Replay mode (-DVP_REPLAY): the very same harness is compiled by gcc with
 * ASan/UBSan against the real sources; the input struct is a constant
 * initialiser generated from the solver's counterexample (VP_INPUT_FILE).
 */
#ifndef VP_H_INCLUDED
#define VP_H_INCLUDED

#include <stdbool.h>
#include <stddef.h>
#include <stdint.h>

#ifdef VP_REPLAY

#include <stdio.h>
#include <stdlib.h>
#include <string.h>

extern int vp_replay_failed;
extern int vp_replay_witnessed;

#define VP_ASSUME(c)                                                        \
    do {                                                                    \
        if (!(c)) {                                                         \
            printf("REPLAY-ASSUME-FAILED %s:%d %s\n", __FILE__, __LINE__,   \
                   #c);                                                     \
            fflush(stdout);                                                 \
            exit(3);                                                        \
        }                                                                   \
    } while (0)

#define VP_ASSERT(c, label)                                                 \
    do {                                                                    \
        if (!(c)) {                                                         \
            printf("REPLAY-VIOLATION %s (%s:%d)\n", label, __FILE__,        \
                   __LINE__);                                               \
            fflush(stdout);                                                 \
            vp_replay_failed = 1;                                           \
        }                                                                   \
    } while (0)

#define VP_WITNESS(c, label)                                                \
    do {                                                                    \
        if (c) {                                                            \
            printf("REPLAY-WITNESS %s\n", label);                           \
            fflush(stdout);                                                 \
            vp_replay_witnessed = 1;                                        \
        }                                                                   \
    } while (0)

#define VP_R_OK(p, n) ((p) != NULL)
#define VP_W_OK(p, n) ((p) != NULL)

#include VP_INPUT_FILE
/* static: gcc 12 -ftrivial-auto-var-init=pattern corrupts large automatic objects that have a
 * designated initialiser (observed: members reset to 0); a static object is initialised by the loader */
#define VP_INPUT(var) static struct vp_in var = VP_REPLAY_INIT

#define VP_MAIN_EPILOGUE()                                                  \
    int vp_replay_failed = 0;                                               \
    int vp_replay_witnessed = 0;                                            \
    int main(void)                                                          \
    {                                                                       \
        harness();                                                          \
        printf("REPLAY-DONE failed=%d witnessed=%d\n", vp_replay_failed,    \
               vp_replay_witnessed);                                        \
        return vp_replay_failed ? 1 : 0;                                    \
    }

#else /* CBMC mode */

#define VP_ASSUME(c) __CPROVER_assume(c)
#define VP_ASSERT(c, label) __CPROVER_assert((c), "VP:" label)
#define VP_WITNESS(c, label) __CPROVER_assert(!(c), "WITNESS:" label)
#define VP_R_OK(p, n) __CPROVER_r_ok((p), (n))
#define VP_W_OK(p, n) __CPROVER_w_ok((p), (n))

#define VP_INPUT(var) struct vp_in var = nondet_vp_in()
#define VP_MAIN_EPILOGUE()

#endif /* VP_REPLAY */

/* Every harness defines  struct vp_in { ... };  then  VP_DECLARE_INPUT();  */
#ifdef VP_REPLAY
#define VP_DECLARE_INPUT() struct vp_in
#else
#define VP_DECLARE_INPUT() struct vp_in nondet_vp_in(void)
#endif

void harness(void);

#endif /* VP_H_INCLUDED */
