/* C02: block writes are validated as a whole and are all-or-nothing.
 * Unit: src/registers/core.c (#include'd).
 * Symbolic table description (areas with symbolic base/size/flags/write
 * callback/backing kind, registers with symbolic type/address/constraint),
 * arbitrary current memory and touched marks, arbitrary (address, n, words).
 * The pre-state is arbitrary, so a single call covers "evolving contents". */
#include "../regs/regs_common.h"

#ifndef NMAX
#define NMAX 5
#endif

struct vp_in {
    struct vp_table t;
    RegisterAtom mem[NAREA][AWORDS];
    uint8_t touched[NREG];
    uint32_t addr;
    uint8_t n;
    RegisterAtom buf[NMAX];
};
VP_DECLARE_INPUT();

static struct vp_in in_g;

static bool in_request(uint32_t a)
{
    return (uint32_t)(a - in_g.addr) < in_g.n;
}

static RegisterAtom req_word(uint32_t a)
{
    /* block word i sits at in.buf[NMAX - n + i] */
    return in_g.buf[NMAX - in_g.n + (uint32_t)(a - in_g.addr)];
}

/* overlay of the request on register e: octet image afterwards */
static void overlay_octets(const struct vp_table *d, const struct vp_entry *e, uint8_t *o)
{
    int ai = ref_area_of(d, e->address);
    unsigned off = e->address - d->a[ai].base;
    for (unsigned w = 0; w < 4; ++w) {
        if (w >= ref_size(e->type))
            break;
        uint32_t a = e->address + w;
        RegisterAtom word = in_request(a) ? req_word(a) : in_g.mem[ai][off + w];
        o[2 * w] = (uint8_t)(word & 0xffu);
        o[2 * w + 1] = (uint8_t)(word >> 8);
    }
}

static bool reg_overlapped(const struct vp_entry *e)
{
    for (unsigned w = 0; w < 4; ++w) {
        if (w >= ref_size(e->type))
            break;
        if (in_request(e->address + w))
            return true;
    }
    return false;
}

/* register (index) that contains address a, or -1 */
static int reg_at(const struct vp_table *d, uint32_t a)
{
    for (unsigned j = 0; j < NREG; ++j) {
        if (j >= d->nentries)
            break;
        if ((uint32_t)(a - d->e[j].address) < ref_size(d->e[j].type))
            return (int)j;
    }
    return -1;
}

void harness(void)
{
    VP_INPUT(in);
#ifdef GA_N
    vp_apply_geometry(&in.t);
#endif
    in_g = in;
    const struct vp_table *d = &in.t;
    VP_ASSUME(vp_desc_wellformed(d));
    for (unsigned i = 0; i < NAREA; ++i) {
        VP_ASSUME(d->a[i].base <= VP_ADDR_LIMIT);
        VP_ASSUME(d->a[i].has_read == 1);
    }
    for (unsigned i = 0; i < NREG; ++i) {
        VP_ASSUME(d->e[i].address <= VP_ADDR_LIMIT);
        VP_ASSUME(in.touched[i] <= 1);
    }
    VP_ASSUME(ref_layout_ok(d));
#ifdef GA_N
    VP_ASSUME(vp_geometry_types_ok(d));
#endif
    for (unsigned i = 0; i < NAREA; ++i)
        if (i < d->nareas)
            VP_ASSUME(d->a[i].size >= 1); /* zero-size areas are outside the claim (see DESIGN.md C02) */
#ifdef NFIX
    /* the driver enumerates the block length: one query per n */
    VP_ASSUME(in.n == NFIX);
#else
    VP_ASSUME(in.n <= NMAX);
#endif
#ifdef ADDR_WINDOW
    VP_ASSUME(in.addr <= 0x7fffff40u);
#endif
    vp_link_direct(d);
    for (unsigned a = 0; a < NAREA; ++a)
        for (unsigned w = 0; w < AWORDS; ++w)
            vp_mem[a][w] = in.mem[a][w];
    for (unsigned i = 0; i < NREG; ++i)
        vp_entries[i].flags = in.touched[i] ? REG_EF_TOUCHED : 0;
    struct vp_snapshot before;
    vp_snap(&before);

#ifdef NFIX
    const unsigned n = NFIX;
#else
    const unsigned n = in.n;
#endif
#ifdef VP_REPLAY
    RegisterAtom *blk = malloc(n ? n * sizeof(RegisterAtom) : 1);
    memcpy(blk, in.buf + (NMAX - n), n * sizeof(RegisterAtom));
#else
    /* the caller's buffer ends exactly after n words */
    RegisterAtom arr[NMAX];
    for (unsigned i = 0; i < NMAX; ++i)
        arr[i] = in.buf[i];
    RegisterAtom *blk = arr + (NMAX - n);
#endif

    RegisterAccess r = register_block_write(&vp_t, in.addr, n, blk);

    /* ---------------- reference verdict */
    bool all_mapped = true, all_writeable = true, all_valid = true;
    bool has_ro = false, has_hole = false, has_inv = false, has_rng = false;
    uint32_t first_ro = 0, first_hole = 0, first_inv = 0, first_rng = 0;
    /* mapping and writability: per request word, in request order */
    for (unsigned i = 0; i < NMAX; ++i) {
        if (i >= n)
            break;
        uint32_t a = in.addr + i;
        int ai = ref_area_of(d, a);
        if (ai < 0) {
            all_mapped = false;
            if (!has_hole) { has_hole = true; first_hole = a; }
        } else if (!ref_area_block_writeable(&d->a[ai])) {
            all_writeable = false;
            if (!has_ro) { has_ro = true; first_ro = a; }
        }
    }
    /* decode + constraint: once per overlapped register; the first request
     * address (in request order) inside register j is addr itself when the
     * request starts inside j, else j's own address */
    uint32_t pos_inv = 0xffffffffu, pos_rng = 0xffffffffu;
    for (unsigned j = 0; j < NREG; ++j) {
        if (j >= d->nentries)
            break;
        const struct vp_entry *e = &d->e[j];
        uint32_t fa;
        if (n > 0 && (uint32_t)(in.addr - e->address) < ref_size(e->type))
            fa = in.addr;
        else if (in_request(e->address))
            fa = e->address;
        else
            continue;
        uint8_t o[8];
        overlay_octets(d, e, o);
        uint64_t bits = ref_decode(o, e->type, d->bigendian);
        uint32_t pos = fa - in.addr;
        if (!ref_float_ok(bits, e->type)) {
            all_valid = false;
            if (pos < pos_inv) { pos_inv = pos; has_inv = true; first_inv = fa; }
        } else if (!ref_constraint(d, e, bits, false)) {
            all_valid = false;
            if (pos < pos_rng) { pos_rng = pos; has_rng = true; first_rng = fa; }
        }
    }
    const bool expect = all_mapped && all_writeable && all_valid;

    VP_ASSERT((r.code == REG_ACCESS_SUCCESS) == expect, "C02.succeeds-iff-reference");

    if (r.code == REG_ACCESS_SUCCESS) {
        for (unsigned a = 0; a < NAREA; ++a) {
            for (unsigned w = 0; w < AWORDS; ++w) {
                bool live = a < d->nareas && w < d->a[a].size;
                uint32_t ga = d->a[a].base + w;
                if (live && in_request(ga))
                    VP_ASSERT(vp_mem[a][w] == req_word(ga), "C02.success.words-written");
                else
                    VP_ASSERT(vp_mem[a][w] == before.mem[a][w], "C02.success.other-words-unchanged");
            }
        }
        for (unsigned j = 0; j < NREG; ++j) {
            if (j >= d->nentries)
                break;
            uint16_t want = before.flags[j];
            if (n > 0 && reg_overlapped(&d->e[j]))
                want |= REG_EF_TOUCHED;
            VP_ASSERT(vp_entries[j].flags == want, "C02.success.touched-exactly-overlapped");
        }
    } else {
        VP_ASSERT(vp_mem_equal(&before), "C02.failure.no-word-changes");
        bool ok_ro = (r.code == REG_ACCESS_READONLY && has_ro && r.address == first_ro);
        bool ok_hole = (r.code == REG_ACCESS_NOENTRY && has_hole && r.address == first_hole);
        bool ok_inv = (r.code == REG_ACCESS_INVALID && has_inv && r.address == first_inv);
        bool ok_rng = (r.code == REG_ACCESS_RANGE && has_rng && r.address == first_rng);
        VP_ASSERT(r.code == REG_ACCESS_READONLY || r.code == REG_ACCESS_NOENTRY ||
                      r.code == REG_ACCESS_INVALID || r.code == REG_ACCESS_RANGE,
                  "C02.failure.class-is-one-of-four");
        VP_ASSERT(ok_ro || ok_hole || ok_inv || ok_rng, "C02.failure.class-and-first-address");
    }

    /* interesting paths (which ones exist depends on the geometry: W_* flags from the driver) */
    int j0 = (n > 0) ? reg_at(d, in.addr) : -1;
#if !defined(GA_N) || defined(W_INSIDE2)
    VP_WITNESS(r.code == REG_ACCESS_SUCCESS && j0 >= 0 && d->e[j0].address < in.addr &&
                   d->e[j0].check == REGV_TYPE_RANGE && n >= 2,
               "C02.success-starting-inside-range-register.reach");
#endif
#if !defined(GA_N) || defined(W_MULTI)
    VP_WITNESS(r.code == REG_ACCESS_RANGE && j0 >= 0 && d->e[j0].address < in.addr, "C02.range-partial-first.reach");
    VP_WITNESS(r.code == REG_ACCESS_INVALID && has_inv, "C02.invalid-float.reach");
#endif
#if !defined(GA_N) || defined(W_W4)
    VP_WITNESS(r.code == REG_ACCESS_SUCCESS && j0 >= 0 && d->e[j0].address < in.addr &&
                   in.addr + n < d->e[j0].address + ref_size(d->e[j0].type) && d->e[j0].check == REGV_TYPE_MIN,
               "C02.success-embedded-in-one-register.reach");
#endif
#if !defined(GA_N) || defined(W_ADJ)
    VP_WITNESS(r.code == REG_ACCESS_SUCCESS && ref_area_of(d, in.addr) != ref_area_of(d, in.addr + n - 1),
               "C02.success-spanning-two-areas.reach");
#endif
#if !defined(GA_N) || defined(W_REGS)
    VP_WITNESS(r.code == REG_ACCESS_RANGE && has_rng && d->bigendian, "C02.range-failure-bigendian.reach");
#endif
    VP_WITNESS(r.code == REG_ACCESS_READONLY && has_ro && first_ro != in.addr, "C02.readonly-later.reach");
    VP_WITNESS(r.code == REG_ACCESS_NOENTRY && has_hole && first_hole != in.addr, "C02.hole-later.reach");
    VP_WITNESS(r.code == REG_ACCESS_SUCCESS && n == 0 && ref_area_of(d, in.addr) < 0, "C02.zero-length-in-hole.reach");
#ifdef W_MAXRUN
    VP_WITNESS(r.code == REG_ACCESS_SUCCESS && n == (W_MAXRUN < NMAX ? W_MAXRUN : NMAX), "C02.success-longest-block.reach");
#endif
#ifdef VP_REPLAY
    free(blk);
#endif
}
VP_MAIN_EPILOGUE()
