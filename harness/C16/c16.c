/* C16: the checksum is CRC-16/ARC for every input.
 * Units: src/crc-16-arc.c (linked unchanged).
 * Oracle: bit-serial reflected CRC (poly 0x8005 reflected = 0xA001), written
 * from the CRC catalogue definition, no table. */
#include <vp.h>
#include <ufw/crc/crc16-arc.h>

#ifndef LEN
#define LEN 4
#endif

static uint16_t ref_step(uint16_t crc, uint8_t o)
{
    crc ^= o;
    for (int k = 0; k < 8; ++k)
        crc = (crc & 1u) ? (uint16_t)((crc >> 1) ^ 0xA001u) : (uint16_t)(crc >> 1);
    return crc;
}

static uint16_t ref_crc(uint16_t crc, const uint8_t *p, size_t n)
{
    for (size_t i = 0; i < n; ++i)
        crc = ref_step(crc, p[i]);
    return crc;
}

struct vp_in {
    uint16_t init;
    uint8_t n;
    uint8_t split;
    uint8_t data[LEN];
    uint16_t words[LEN];
};
VP_DECLARE_INPUT();

void harness(void)
{
    VP_INPUT(in);

#if defined(MODE_STEP)
    /* all 2^24 (state, octet) pairs of the update step in one query */
    uint8_t o = in.data[0];
    uint16_t got = ufw_crc16_arc(in.init, &o, 1);
    VP_ASSERT(got == ref_step(in.init, o), "C16.step");
    VP_ASSERT(ufw_crc16_arc(in.init, &o, 0) == in.init, "C16.empty");
    VP_WITNESS(got == 0xBB3D && in.init != 0, "C16.step.reach");
#elif defined(MODE_BUFFER)
    VP_ASSUME(in.n <= LEN);
    VP_ASSUME(in.split <= in.n);
    /* the buffer ends exactly after n octets */
    const uint8_t *p = in.data + (LEN - in.n);
    uint16_t got = ufw_crc16_arc(in.init, p, in.n);
    VP_ASSERT(got == ref_crc(in.init, p, in.n), "C16.buffer");
    uint16_t a = ufw_crc16_arc(in.init, p, in.split);
    uint16_t b = ufw_crc16_arc(a, p + in.split, (size_t)in.n - in.split);
    VP_ASSERT(b == got, "C16.concat");
    VP_ASSERT(ufw_buffer_crc16_arc(p, in.n) == ref_crc(0, p, in.n),
              "C16.buffer-init0");
    VP_WITNESS(in.n == LEN && in.split > 0 && in.split < in.n && in.init == 0x1234,
               "C16.buffer.reach");
#elif defined(MODE_WORDS)
    VP_ASSUME(in.n <= LEN);
    const uint16_t *w = in.words + (LEN - in.n);
    uint16_t got = ufw_crc16_arc_u16(in.init, w, in.n);
    /* octet variant over the words' in-memory octet image */
    VP_ASSERT(got == ufw_crc16_arc(in.init, w, 2u * (size_t)in.n),
              "C16.words-vs-octets");
    uint8_t img[2 * LEN];
    for (unsigned i = 0; i < in.n; ++i) {
        /* little-endian host (the configuration that is built and tested) */
        img[2 * i] = (uint8_t)(w[i] & 0xffu);
        img[2 * i + 1] = (uint8_t)(w[i] >> 8);
    }
    VP_ASSERT(got == ref_crc(in.init, img, 2u * (size_t)in.n), "C16.words-ref");
    VP_ASSERT(ufw_buffer_crc16_arc_u16(w, in.n) == ref_crc(0, img, 2u * (size_t)in.n),
              "C16.words-init0");
    VP_WITNESS(in.n == LEN && in.init == 0x4321, "C16.words.reach");
#elif defined(MODE_WORDS_BE)
    /* the SYSTEM_ENDIANNESS_BIG branch of ufw_crc16_arc_u16 (compiled with
     * -DSYSTEM_ENDIANNESS_BIG): on a big-endian host a word's in-memory octet
     * image is most significant octet first */
    VP_ASSUME(in.n <= LEN);
    const uint16_t *w = in.words + (LEN - in.n);
    uint16_t got = ufw_crc16_arc_u16(in.init, w, in.n);
    uint8_t img[2 * LEN];
    for (unsigned i = 0; i < in.n; ++i) {
        img[2 * i] = (uint8_t)(w[i] >> 8);
        img[2 * i + 1] = (uint8_t)(w[i] & 0xffu);
    }
    VP_ASSERT(got == ref_crc(in.init, img, 2u * (size_t)in.n), "C16.words-be-ref");
    VP_ASSERT(got == ufw_crc16_arc(in.init, img, 2u * (size_t)in.n), "C16.words-be-vs-octets");
    VP_WITNESS(in.n == LEN && in.init == 0x4321, "C16.words-be.reach");
#else
#error "no MODE"
#endif
}
VP_MAIN_EPILOGUE()
