/* C15: endian codecs place and fetch every value byte-exactly.
 * Unit: include/ufw/binary-format.h (header-only; all 111 functions are
 * referenced from this file, so a function that disappears from the header
 * makes the harness fail to compile => inconclusive).
 *
 * The function table is  {16,24,32,40,48,56,64} x {n,b,l} x {u,s,f32/f64}:
 *   - the width list lives in specs/C15.py (one MODE_CODEC instance per width,
 *     -DC15_W=<width>); the spec also compares the header's function list
 *     with the table and defines C15_TABLE_MISMATCH when they differ;
 *   - kind x order is expanded below by the preprocessor.
 *
 * Oracle (written from the property text, not from the generated code):
 *   octet k of a w/8-octet field holds value bits 8*(w/8-1-k).. (big endian:
 *   most significant first) or 8*k.. (little endian: least significant
 *   first) of the two's-complement / IEEE image of the value; native is the
 *   host order (little in the configuration that is built and tested);
 *   loading yields the image zero-extended (unsigned), interpreted as w-bit
 *   two's complement (signed: -2^(w-1)*bit(w-1) + low bits), or bit-identical
 *   (floats, compared as bit patterns so NaN payloads count). */
#include <vp.h>
#include <ufw/binary-format.h>

#ifdef C15_TABLE_MISMATCH
#error "C15: bf_* function list of include/ufw/binary-format.h differs from the table in specs/C15.py"
#endif

#define PRE 8                 /* octets in front of the 8-aligned base   */
#define MAXOFF 7              /* alignment offsets 0..7                  */
#define ALIGNED8 __attribute__((aligned(8)))

#if defined(SYSTEM_ENDIANNESS_BIG)
#define NATIVE_BIG 1
#else
#define NATIVE_BIG 0
#endif

#define CAT3_(a, b, c) a##b##c
#define CAT3(a, b, c) CAT3_(a, b, c)
#define CAT4_(a, b, c, d) a##b##c##d
#define CAT4(a, b, c, d) CAT4_(a, b, c, d)
#define STR_(x) #x
#define STR(x) STR_(x)

/* ---------------------------------------------------------------- oracle */

/* memory position k (0 = lowest address) of an nb-octet field -> significance
 * index of the octet stored there (0 = least significant) */
static unsigned lane_of(unsigned k, unsigned nb, int big)
{
    return big ? nb - 1u - k : k;
}

static uint64_t low_mask(unsigned nb)
{
    return nb >= 8u ? ~(uint64_t)0 : (((uint64_t)1 << (8u * nb)) - 1u);
}

static uint8_t octet_of(uint64_t image, unsigned lane)
{
    return (uint8_t)(image >> (8u * lane));
}

/* value of the low 8*nb bits of image read as two's complement */
static int64_t ref_signed(uint64_t image, unsigned nb)
{
    const uint64_t s = (uint64_t)1 << (8u * nb - 1u);
    const int64_t low = (int64_t)(image & (s - 1u));
    if ((image & s) == 0u)
        return low;
    return nb >= 8u ? low + INT64_MIN : low - (int64_t)s;
}

static uint64_t ref_compose(const uint8_t *p, unsigned nb, int big)
{
    uint64_t u = 0u;
    for (unsigned k = 0u; k < nb; ++k)
        u |= (uint64_t)p[k] << (8u * lane_of(k, nb, big));
    return u;
}

/* ===================================================================== */
#if defined(MODE_CODEC)

#ifndef C15_W
#error "MODE_CODEC needs -DC15_W=<width>"
#endif
#define NB (C15_W / 8)
#define MEM (PRE + MAXOFF + 8 + 9) /* >= 9 octets behind every field */

#if C15_W == 16
typedef uint16_t c15_u;
typedef int16_t c15_s;
#elif C15_W == 24 || C15_W == 32
typedef uint32_t c15_u;
typedef int32_t c15_s;
#elif C15_W == 40 || C15_W == 48 || C15_W == 56 || C15_W == 64
typedef uint64_t c15_u;
typedef int64_t c15_s;
#else
#error "unsupported C15_W"
#endif

#if C15_W == 32
#define C15_HAS_FLOAT 1
typedef float c15_f;
#elif C15_W == 64
#define C15_HAS_FLOAT 1
typedef double c15_f;
#endif

#define SETFN(K, O) CAT4(bf_set_, K, C15_W, O)
#define REFFN(K, O) CAT4(bf_ref_, K, C15_W, O)
#define LBL(OP, K, O, WHAT) "C15." OP "_" #K STR(C15_W) #O "." WHAT

struct vp_in {
    uint8_t off;      /* alignment offset 0..7 */
    uint8_t mem[MEM]; /* arbitrary previous memory contents */
    uint64_t v;       /* value: low bits are cast to the argument type */
};
VP_DECLARE_INPUT();

/* file-scope copy of the input: direct (pointer-free) access from the checks */
static struct vp_in g_in;

enum { ORD_n = 0, ORD_b = 1, ORD_l = 2 };

/* results, for the reachability witnesses in harness() */
static struct {
    uint64_t u[3], f[3], mu[3], mf[3];
    int64_t s[3], ms[3];
} res;

/* Every check function below runs, for one codec pair and one alignment
 * offset `off` (a constant at each call site, see harness()):
 *   1. bf_ref_* on arbitrary memory: value = composed lanes, memory unchanged
 *   2. bf_set_*: end pointer, field octets per lane specification, every
 *      other octet of the array as before
 *   3. bf_ref_* of the stored field: round trip */
#define PROLOGUE()                                                          \
    uint8_t buf[MEM] ALIGNED8;                                              \
    for (unsigned i = 0u; i < MEM; ++i)                                     \
        buf[i] = g_in.mem[i];                                               \
    uint8_t *const p = buf + PRE + off;                                     \
    const uint64_t composed = ref_compose(g_in.mem + PRE + off, NB, big)

#define CHECK_READONLY(K, O)                                                \
    for (unsigned i = 0u; i < MEM; ++i)                                     \
        VP_ASSERT(buf[i] == g_in.mem[i], LBL("ref", K, O, "readonly"))

#define CHECK_STORE(K, O)                                                   \
    VP_ASSERT(end == (void *)(p + NB), LBL("set", K, O, "end"));            \
    for (unsigned i = 0u; i < MEM; ++i) {                                   \
        if (i >= PRE + off && i < PRE + off + NB) {                         \
            VP_ASSERT(buf[i] ==                                             \
                          octet_of(image, lane_of(i - PRE - off, NB, big)), \
                      LBL("set", K, O, "octets"));                          \
        } else {                                                            \
            VP_ASSERT(buf[i] == g_in.mem[i],                                \
                      LBL("set", K, O, "neighbours"));                      \
        }                                                                   \
    }

#define CODEC_UNSIGNED(O, BIG)                                              \
    static void CAT3(chk_u, C15_W, O)(const unsigned off)                   \
    {                                                                       \
        const int big = (BIG);                                              \
        PROLOGUE();                                                         \
        const c15_u g2 = REFFN(u, O)(p);                                    \
        VP_ASSERT((uint64_t)g2 == composed, LBL("ref", u, O, "value"));     \
        CHECK_READONLY(u, O);                                               \
        const c15_u arg = (c15_u)g_in.v;                                    \
        const uint64_t image = (uint64_t)arg;                               \
        void *const end = SETFN(u, O)(p, arg);                              \
        CHECK_STORE(u, O)                                                   \
        const c15_u got = REFFN(u, O)(p);                                   \
        VP_ASSERT((uint64_t)got == (image & low_mask(NB)),                  \
                  LBL("ref", u, O, "roundtrip"));                           \
        if ((image & low_mask(NB)) == image)                                \
            VP_ASSERT(got == arg, LBL("ref", u, O, "same"));                \
        res.u[ORD_##O] = (uint64_t)got;                                     \
        res.mu[ORD_##O] = (uint64_t)g2;                                     \
    }

#define CODEC_SIGNED(O, BIG)                                                \
    static void CAT3(chk_s, C15_W, O)(const unsigned off)                   \
    {                                                                       \
        const int big = (BIG);                                              \
        PROLOGUE();                                                         \
        const c15_s g2 = REFFN(s, O)(p);                                    \
        VP_ASSERT((int64_t)g2 == ref_signed(composed, NB),                  \
                  LBL("ref", s, O, "value"));                               \
        CHECK_READONLY(s, O);                                               \
        const c15_s arg = (c15_s)g_in.v;                                    \
        /* two's-complement image (sign-extended to 64 bit) */              \
        const uint64_t image = (uint64_t)arg;                               \
        void *const end = SETFN(s, O)(p, arg);                              \
        CHECK_STORE(s, O)                                                   \
        const c15_s got = REFFN(s, O)(p);                                   \
        VP_ASSERT((int64_t)got == ref_signed(image, NB),                    \
                  LBL("ref", s, O, "roundtrip"));                           \
        if (ref_signed(image, NB) == (int64_t)arg)                          \
            VP_ASSERT(got == arg, LBL("ref", s, O, "same"));                \
        res.s[ORD_##O] = (int64_t)got;                                      \
        res.ms[ORD_##O] = (int64_t)g2;                                      \
    }

#ifdef C15_HAS_FLOAT
union c15_fbits {
    c15_u u;
    c15_f f;
};
#if C15_W == 32
#define EXP_ALL 0x7f800000ull
#define QUIET 0x00400000ull
#define PAYLOAD 0x003fffffull
#else
#define EXP_ALL 0x7ff0000000000000ull
#define QUIET 0x0008000000000000ull
#define PAYLOAD 0x0007ffffffffffffull
#endif
/* signalling NaN: the patterns that float arithmetic on real hardware
 * alters.  The *-snan assertions are implied by the general ones; they give
 * the solver a failing obligation whose counterexample is a signalling NaN,
 * i.e. one that also misbehaves when replayed on the gcc build (CBMC's
 * float model may alter other NaN payloads that x86-64 SSE preserves). */
#define IS_SNAN(u)                                                          \
    ((((uint64_t)(u)) & EXP_ALL) == EXP_ALL && (((uint64_t)(u)) & QUIET) == 0u && \
     (((uint64_t)(u)) & PAYLOAD) != 0u)
#define CODEC_FLOAT(O, BIG)                                                 \
    static void CAT3(chk_f, C15_W, O)(const unsigned off)                   \
    {                                                                       \
        const int big = (BIG);                                              \
        PROLOGUE();                                                         \
        union c15_fbits a, g, g2;                                           \
        g2.f = REFFN(f, O)(p);                                              \
        VP_ASSERT((uint64_t)g2.u == composed, LBL("ref", f, O, "value"));   \
        if (IS_SNAN(composed))                                              \
            VP_ASSERT((uint64_t)g2.u == composed,                           \
                      LBL("ref", f, O, "value-snan"));                      \
        CHECK_READONLY(f, O);                                               \
        a.u = (c15_u)g_in.v;                                                \
        const uint64_t image = (uint64_t)a.u;                               \
        void *const end = SETFN(f, O)(p, a.f);                              \
        CHECK_STORE(f, O)                                                   \
        g.f = REFFN(f, O)(p);                                               \
        VP_ASSERT(g.u == a.u, LBL("ref", f, O, "roundtrip-bits"));          \
        if (IS_SNAN(a.u))                                                   \
            VP_ASSERT(g.u == a.u, LBL("ref", f, O, "roundtrip-snan"));      \
        res.f[ORD_##O] = (uint64_t)g.u;                                     \
        res.mf[ORD_##O] = (uint64_t)g2.u;                                   \
    }
#endif

CODEC_UNSIGNED(n, NATIVE_BIG)
CODEC_UNSIGNED(b, 1)
CODEC_UNSIGNED(l, 0)
CODEC_SIGNED(n, NATIVE_BIG)
CODEC_SIGNED(b, 1)
CODEC_SIGNED(l, 0)
#ifdef C15_HAS_FLOAT
CODEC_FLOAT(n, NATIVE_BIG)
CODEC_FLOAT(b, 1)
CODEC_FLOAT(l, 0)
#endif

#define WL(WHAT) "C15.w" STR(C15_W) "." WHAT

void harness(void)
{
    VP_INPUT(in);
    VP_ASSUME(in.off <= MAXOFF);
    g_in = in;

    /* case split on the alignment offset: `o` is a constant in every
     * unrolled iteration, so all array accesses have constant indices */
    for (unsigned o = 0u; o <= MAXOFF; ++o) {
        if (in.off != o)
            continue;
        CAT3(chk_u, C15_W, n)(o);
        CAT3(chk_u, C15_W, b)(o);
        CAT3(chk_u, C15_W, l)(o);
        CAT3(chk_s, C15_W, n)(o);
        CAT3(chk_s, C15_W, b)(o);
        CAT3(chk_s, C15_W, l)(o);
#ifdef C15_HAS_FLOAT
        CAT3(chk_f, C15_W, n)(o);
        CAT3(chk_f, C15_W, b)(o);
        CAT3(chk_f, C15_W, l)(o);
#endif
    }

    /* sign bit of the width set, nothing above it: loads are negative for
     * the signed kinds and unchanged for the unsigned ones, last alignment */
    VP_WITNESS(in.off == MAXOFF && (in.v >> (C15_W - 1)) == 1u &&
                   res.s[ORD_n] < 0 && res.s[ORD_b] < 0 && res.s[ORD_l] < 0 &&
                   res.u[ORD_b] == in.v && res.u[ORD_l] == in.v,
               WL("reach-negative"));
    /* sign bit clear, top bit of the lowest octet set, aligned */
    VP_WITNESS(in.off == 0u && ((in.v >> (C15_W - 1)) & 1u) == 0u &&
                   (in.v & 0x80u) != 0u && res.s[ORD_n] >= 0 &&
                   res.s[ORD_b] == res.s[ORD_l] && res.s[ORD_b] >= 0x80,
               WL("reach-positive"));
#if C15_W != 16 && C15_W != 32 && C15_W != 64
    /* caller passes bits above the width: they are not stored */
    VP_WITNESS(in.off == 3u && ((c15_u)in.v >> C15_W) != 0u &&
                   (res.u[ORD_n] >> C15_W) == 0u &&
                   res.u[ORD_n] == res.u[ORD_b],
               WL("reach-upper-bits-dropped"));
#endif
    /* loading arbitrary memory: orders differ, signed load negative */
    VP_WITNESS(in.off == 5u && res.mu[ORD_b] != res.mu[ORD_l] &&
                   res.ms[ORD_b] < 0 && res.ms[ORD_l] > 0,
               WL("reach-load-raw"));
#ifdef C15_HAS_FLOAT
    /* negative signalling NaN with a payload survives bit-identically */
    VP_WITNESS((in.v & EXP_ALL) == EXP_ALL && (in.v & QUIET) == 0u &&
                   (in.v & PAYLOAD) != 0u && (in.v >> (C15_W - 1)) == 1u &&
                   res.f[ORD_n] == in.v && res.f[ORD_b] == in.v &&
                   res.f[ORD_l] == in.v,
               WL("reach-nan-payload"));
#endif
}

/* ===================================================================== */
#elif defined(MODE_SWAPRANGE)

struct vp_in {
    uint64_t x; /* swap argument (low bits cast to the argument type)   */
    uint64_t q; /* unsigned range-predicate argument                     */
    int64_t r;  /* signed range-predicate argument                       */
};
VP_DECLARE_INPUT();

/* bf_swapNN: octet lane k of the result = lane NN/8-1-k of the argument for
 * the low NN/8 lanes (any argument), applying it twice gives back the low
 * NN bits (any argument) and the argument itself when it is an NN-bit value */
#define SWAP(NN, TYPE)                                                      \
    do {                                                                    \
        const TYPE a = (TYPE)in.x;                                          \
        const TYPE y = bf_swap##NN(a);                                      \
        for (unsigned k = 0u; k < NN / 8u; ++k)                             \
            VP_ASSERT(octet_of(y, k) == octet_of(a, NN / 8u - 1u - k),      \
                      "C15.swap" #NN ".lanes");                             \
        const TYPE z = bf_swap##NN(y);                                      \
        VP_ASSERT(((uint64_t)z & low_mask(NN / 8u)) ==                      \
                      ((uint64_t)a & low_mask(NN / 8u)),                    \
                  "C15.swap" #NN ".involution-low-bits");                   \
        if (((uint64_t)a & ~low_mask(NN / 8u)) == 0u)                       \
            VP_ASSERT(z == a, "C15.swap" #NN ".involution");                \
        sw[NN / 8u] = (uint64_t)y;                                          \
    } while (0)

/* accepted <=> representable: storing the low NN bits and reading them back
 * (zero- resp. sign-extended) reproduces the value */
#define RANGE_U(NN, TYPE)                                                   \
    do {                                                                    \
        const TYPE a = (TYPE)in.q;                                          \
        VP_ASSERT(bf_inrange_u##NN(a) == (((uint64_t)a >> NN) == 0u),       \
                  "C15.inrange_u" #NN);                                     \
    } while (0)
#define RANGE_S(NN, TYPE)                                                   \
    do {                                                                    \
        const TYPE a = (TYPE)in.r;                                          \
        VP_ASSERT(bf_inrange_s##NN(a) ==                                    \
                      (ref_signed((uint64_t)a, NN / 8u) == (int64_t)a),     \
                  "C15.inrange_s" #NN);                                     \
    } while (0)

void harness(void)
{
    VP_INPUT(in);
    uint64_t sw[9] = { 0 };

    SWAP(16, uint16_t);
    SWAP(24, uint32_t);
    SWAP(32, uint32_t);
    SWAP(40, uint64_t);
    SWAP(48, uint64_t);
    SWAP(56, uint64_t);
    SWAP(64, uint64_t);

    RANGE_U(24, uint32_t);
    RANGE_U(40, uint64_t);
    RANGE_U(48, uint64_t);
    RANGE_U(56, uint64_t);
    RANGE_S(24, int32_t);
    RANGE_S(40, int64_t);
    RANGE_S(48, int64_t);
    RANGE_S(56, int64_t);

    VP_WITNESS(in.x == 0x0102030405060708ull && sw[8] == 0x0807060504030201ull &&
                   sw[3] == 0x080706u && sw[2] == 0x0807u,
               "C15.swap.reach");
    /* bits above the width passed to a partial-width swap */
    VP_WITNESS((in.x >> 56) == 0xa5u && (in.x & 0xffu) == 0x5au &&
                   (sw[7] >> 48 & 0xffu) == 0x5au,
               "C15.swap.reach-upper-bits");
    VP_WITNESS(in.r == -((int64_t)1 << 23) && bf_inrange_s24((int32_t)in.r) &&
                   bf_inrange_s40(in.r),
               "C15.inrange.reach-min-s24");
    VP_WITNESS(in.r == -((int64_t)1 << 23) - 1 &&
                   !bf_inrange_s24((int32_t)in.r) && bf_inrange_s40(in.r),
               "C15.inrange.reach-below-min-s24");
    VP_WITNESS(in.r == ((int64_t)1 << 55) - 1 && bf_inrange_s56(in.r) &&
                   !bf_inrange_s48(in.r),
               "C15.inrange.reach-max-s56");
    VP_WITNESS(in.r == ((int64_t)1 << 55) && !bf_inrange_s56(in.r),
               "C15.inrange.reach-above-max-s56");
    VP_WITNESS(in.q == ((uint64_t)1 << 40) && !bf_inrange_u40(in.q) &&
                   bf_inrange_u48(in.q),
               "C15.inrange.reach-u40-limit");
}

/* ===================================================================== */
#elif defined(MODE_RECORD)

/* A record of fields of every width laid out back to back through the
 * returned end pointers, at any alignment; image compared octet by octet
 * with the lane specification, then decoded field by field. */
#define NFIELD 12
#define RECLEN (2 + 3 + 4 + 5 + 6 + 7 + 8 + 4 + 8 + 3 + 5 + 2)
#define MEM (PRE + MAXOFF + RECLEN + 9)

struct vp_in {
    uint8_t off;
    uint8_t mem[MEM];
    uint64_t v[NFIELD];
};
VP_DECLARE_INPUT();

union f32bits {
    uint32_t u;
    float f;
};
union f64bits {
    uint64_t u;
    double f;
};

static struct vp_in g_in;
static int16_t last;
static uint8_t first_octet, last_octet;

static void record(const unsigned off)
{
    static const uint8_t nb[NFIELD] = { 2, 3, 4, 5, 6, 7, 8, 4, 8, 3, 5, 2 };
    static const uint8_t big[NFIELD] = { 1, 0, NATIVE_BIG, 1, 0, NATIVE_BIG,
                                         1, 0, 1, 1, 0, 0 };
    uint8_t buf[MEM] ALIGNED8;
    uint8_t expect[MEM];
    for (unsigned i = 0u; i < MEM; ++i) {
        buf[i] = g_in.mem[i];
        expect[i] = g_in.mem[i];
    }
    /* expected image from the lane specification */
    unsigned pos = PRE + off;
    for (unsigned f = 0u; f < NFIELD; ++f)
        for (unsigned k = 0u; k < nb[f]; ++k)
            expect[pos++] = octet_of(g_in.v[f], lane_of(k, nb[f], big[f]));

    union f32bits f32;
    union f64bits f64;
    f32.u = (uint32_t)g_in.v[7];
    f64.u = g_in.v[8];
    uint8_t *const start = buf + PRE + off;
    void *p = start;
    p = bf_set_u16b(p, (uint16_t)g_in.v[0]);
    p = bf_set_s24l(p, (int32_t)g_in.v[1]);
    p = bf_set_u32n(p, (uint32_t)g_in.v[2]);
    p = bf_set_s40b(p, (int64_t)g_in.v[3]);
    p = bf_set_u48l(p, g_in.v[4]);
    p = bf_set_s56n(p, (int64_t)g_in.v[5]);
    p = bf_set_s64b(p, (int64_t)g_in.v[6]);
    p = bf_set_f32l(p, f32.f);
    p = bf_set_f64b(p, f64.f);
    p = bf_set_u24b(p, (uint32_t)g_in.v[9]);
    p = bf_set_u40l(p, g_in.v[10]);
    p = bf_set_s16l(p, (int16_t)g_in.v[11]);
    VP_ASSERT(p == (void *)(start + RECLEN), "C15.record.end");
    for (unsigned i = 0u; i < MEM; ++i)
        VP_ASSERT(buf[i] == expect[i], "C15.record.image");

    const uint8_t *q = start;
    VP_ASSERT(bf_ref_u16b(q) == (uint16_t)g_in.v[0], "C15.record.u16b");
    q += 2;
    VP_ASSERT((int64_t)bf_ref_s24l(q) == ref_signed(g_in.v[1], 3), "C15.record.s24l");
    q += 3;
    VP_ASSERT(bf_ref_u32n(q) == (uint32_t)g_in.v[2], "C15.record.u32n");
    q += 4;
    VP_ASSERT(bf_ref_s40b(q) == ref_signed(g_in.v[3], 5), "C15.record.s40b");
    q += 5;
    VP_ASSERT(bf_ref_u48l(q) == (g_in.v[4] & low_mask(6)), "C15.record.u48l");
    q += 6;
    VP_ASSERT(bf_ref_s56n(q) == ref_signed(g_in.v[5], 7), "C15.record.s56n");
    q += 7;
    VP_ASSERT(bf_ref_s64b(q) == ref_signed(g_in.v[6], 8), "C15.record.s64b");
    q += 8;
    union f32bits g32;
    g32.f = bf_ref_f32l(q);
    VP_ASSERT(g32.u == f32.u, "C15.record.f32l");
    q += 4;
    union f64bits g64;
    g64.f = bf_ref_f64b(q);
    VP_ASSERT(g64.u == f64.u, "C15.record.f64b");
    q += 8;
    VP_ASSERT(bf_ref_u24b(q) == ((uint32_t)g_in.v[9] & 0xffffffu), "C15.record.u24b");
    q += 3;
    VP_ASSERT(bf_ref_u40l(q) == (g_in.v[10] & low_mask(5)), "C15.record.u40l");
    q += 5;
    last = bf_ref_s16l(q);
    VP_ASSERT((int64_t)last == ref_signed(g_in.v[11], 2), "C15.record.s16l");
    first_octet = buf[PRE + off];
    last_octet = buf[PRE + off + RECLEN - 1];
}

void harness(void)
{
    VP_INPUT(in);
    VP_ASSUME(in.off <= MAXOFF);
    g_in = in;
    /* case split: the alignment offset is a constant in each iteration */
    for (unsigned o = 0u; o <= MAXOFF; ++o)
        if (in.off == o)
            record(o);

    VP_WITNESS(in.off == 1u && last < 0 && in.v[1] == 0x800000u &&
                   in.v[0] == 0x1234u && first_octet == 0x12u,
               "C15.record.reach");
    VP_WITNESS(in.off == MAXOFF && in.v[11] == 0x7fffu && last == 0x7fff &&
                   last_octet == 0x7fu,
               "C15.record.reach-last-alignment");
}

#else
#error "no MODE"
#endif
VP_MAIN_EPILOGUE()
