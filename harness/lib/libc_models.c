/* Exact byte-loop models of the libc memory/string functions (CBMC mode only).
 * CBMC's built-in models of these functions cost one to two orders of
 * magnitude more on symbolic-offset copies (measured, see DESIGN.md 2.3); these
 * loops are unwound with their own bound (--unwindset) so an over-long copy
 * trips an unwinding assertion as well as the array-bounds checks. */
#ifndef VP_REPLAY
#include <stddef.h>

void *memcpy(void *dst, const void *src, size_t n)
{
    unsigned char *d = dst;
    const unsigned char *s = src;
    for (size_t i = 0; i < n; ++i)
        d[i] = s[i];
    return dst;
}

void *memmove(void *dst, const void *src, size_t n)
{
    unsigned char *d = dst;
    const unsigned char *s = src;
    if (d == s || n == 0)
        return dst;
    if (!__CPROVER_same_object(d, s) || d < s) {
        for (size_t i = 0; i < n; ++i)
            d[i] = s[i];
    } else {
        for (size_t i = n; i > 0; --i)
            d[i - 1] = s[i - 1];
    }
    return dst;
}

void *memset(void *dst, int c, size_t n)
{
    unsigned char *d = dst;
    for (size_t i = 0; i < n; ++i)
        d[i] = (unsigned char)c;
    return dst;
}

int memcmp(const void *a, const void *b, size_t n)
{
    const unsigned char *x = a;
    const unsigned char *y = b;
    for (size_t i = 0; i < n; ++i) {
        if (x[i] != y[i])
            return x[i] < y[i] ? -1 : 1;
    }
    return 0;
}

size_t strlen(const char *s)
{
    size_t n = 0;
    while (s[n] != '\0')
        ++n;
    return n;
}
#endif
