# C07: corrupted frames are never executed nor acknowledged
import importlib.util, os
_sp = importlib.util.spec_from_file_location("regp_common", os.path.join(os.path.dirname(__file__), "regp_common.py"))
rc = importlib.util.module_from_spec(_sp)
_sp.loader.exec_module(rc)

INFO = {
    "explanation": "regp_recv + regp_process + regp_free on (a) an arbitrary deframed octet string of 0..LMAX octets on "
                   "either transport: error.id must equal an independent classifier written from doc/regp.txt (header "
                   "encoding, header CRC, payload size, payload CRC iff declared), the matching META / error response must "
                   "be the exact reference image, nothing rejected reaches the memory backend; (b) a valid serial frame of "
                   "every type built by the reference encoder and damaged by every 1-bit error, every 2-bit error inside "
                   "the protected fields, every burst of 2..16 bits, every truncation and every extension by 1..3 arbitrary "
                   "octets: classified as one of the four faults, never executed, never acknowledged; "
                   "(c) c07_txerr_*: case (a) with a transmitter that refuses every frame (the C09 harness in "
                   "MODE_TXERR): a frame failing the independent reading is not executed although its error report "
                   "could not be sent.",
    "bounds": {"quick": {"LMAX": 20, "payload words": 2, "block": "sizeof(RPFrame)+32"},
               "thorough": {"LMAX": 24, "payload words": 4, "block": "sizeof(RPFrame)+40"}},
    "outside_bounds": ["frames longer than LMAX", "error patterns other than the five kinds", "damaged SLIP streams "
                       "(deframer resynchronisation is C12)",
                       "sink error schedules other than 'every transmission refused'"],
    "stubs": ["framing layer replaced by its contract (see harness/regp/regp_common.h): deframers deliver octet by "
              "octet via sink_put_octet; framers record the chunk list", "allocator: one static block of exact size with "
              "arbitrary initial contents", "memory backend: logs calls, asserts buffer extent, answers a symbolic verdict",
              "memcpy/memset/memmove byte loops"],
    "assumptions": ["the reference uses the library's ufw_crc16_arc for checksums (C16 verifies it against the bit-serial "
                    "definition)", "little-endian host"],
}


def instances(tier):
    lmax, pw, k = (20, 2, 32) if tier == "quick" else (24, 4, 40)
    if os.environ.get("VP_LMAX"):
        lmax = int(os.environ["VP_LMAX"])
    UW = rc.unwind(lmax, k, pw)
    D = {"LMAX": lmax, "PW": pw, "KEXTRA": k}
    out = []
    for tcp in (0, 1):
        d = dict(D, MODE_CLASSIFY=None)
        if tcp:
            d["TCP"] = None
        out.append(mk("c07_classify_%s" % ("tcp" if tcp else "serial"), "C07/c07.c", rc.UNITS, d, unwind=UW,
                      default_unwind=lmax + 2, encoded_units=rc.ENC, fp_removal=True, replay_units=rc.REPLAY_UNITS, object_bits=12, timeout=3000))
    for mode in ("FLIP1", "BURST", "TRUNC", "EXTEND"):
        out.append(mk("c07_%s" % mode.lower(), "C07/c07.c", rc.UNITS, dict(D, **{"MODE_" + mode: None}), unwind=UW,
                      default_unwind=lmax + 2, encoded_units=rc.ENC, fp_removal=True, replay_units=rc.REPLAY_UNITS, object_bits=12, timeout=3000,
                      kf_keys=(["burst_hdcrc_boundary"] if mode == "BURST" else [])))
    # The protocol instances above link the bit-serial CRC specification instead of src/crc-16-arc.c (see
    # regp_common.py). That the real file computes that function -- for odd and even lengths, octet and word
    # variants -- is property C16; the same harness is run here as well, so that a change to crc-16-arc.c that
    # would let damaged frames through is reported under C07 too (seed C07-D).
    L = 5 if tier == "quick" else 9
    out.append(mk("c07_crc_contract_octets", "C16/c16.c", ["src/crc-16-arc.c"], {"MODE_BUFFER": None, "LEN": L},
                  unwind={"ufw_crc16_arc": L + 2, "ref_step": 9, "ref_crc": L + 2}, default_unwind=10, no_models=True))
    out.append(mk("c07_crc_contract_words", "C16/c16.c", ["src/crc-16-arc.c"], {"MODE_WORDS": None, "LEN": 4},
                  unwind={"ufw_crc16_arc": 10, "ufw_crc16_arc_u16": 6, "ref_step": 9, "ref_crc": 10, "harness": 6},
                  default_unwind=10, no_models=True))
    # "never executed, never acknowledged" must also hold when the transmitter refuses the error report (seed
    # C07-G: verdict recorded only after the meta message went out): the C09 harness in transmitter-failure mode,
    # block large enough for every frame of the bound, so every frame is classified by the independent reading
    for tcp in (0, 1):
        k = lmax + 4
        UWT = rc.unwind(lmax, k, 2)
        UWT["header_ok"] = lmax + 2
        d = {"LMAX": lmax, "PW": 2, "KEXTRA": k, "MODE_TXERR": None, "ALLOC_FAILS": 0}
        if tcp:
            d["TCP"] = None
        out.append(mk("c07_txerr_%s" % ("tcp" if tcp else "serial"), "C09/c09.c", rc.UNITS, d, unwind=UWT,
                      default_unwind=lmax + 2, encoded_units=rc.ENC, fp_removal=True, replay_units=rc.REPLAY_UNITS,
                      object_bits=12, timeout=3000, mem_gb=10))
    if tier == "quick":
        out.append(mk("c07_flip2", "C07/c07.c", rc.UNITS, dict(D, MODE_FLIP2=None), unwind=UW,
                      default_unwind=lmax + 2, encoded_units=rc.ENC, fp_removal=True, replay_units=rc.REPLAY_UNITS, object_bits=12, timeout=3000))
    else:
        for o in range(2, lmax):
            out.append(mk("c07_flip2_o%d" % o, "C07/c07.c", rc.UNITS, dict(D, MODE_FLIP2=None, FIRST_OCTET=o),
                          unwind=UW, default_unwind=lmax + 2, encoded_units=rc.ENC, fp_removal=True, replay_units=rc.REPLAY_UNITS, object_bits=12,
                          timeout=3000))
    return out
