# C06: a valid request is executed exactly once and answered faithfully
import importlib.util, os
_sp = importlib.util.spec_from_file_location("regp_common", os.path.join(os.path.dirname(__file__), "regp_common.py"))
rc = importlib.util.module_from_spec(_sp)
_sp.loader.exec_module(rc)

INFO = {
    "explanation": "regp_recv + regp_process + regp_free on a request that is valid by construction (reference encoder; "
                   "read/write, 8/16-bit semantics, every combination of the checksum option bits, arbitrary sequence "
                   "number, address, requested length (all 32 bits) or payload) with the attached memory of either word "
                   "size answering any of the 12 response codes with an arbitrary address and arbitrary data: exactly one "
                   "backend access with the request's address, block size and payload; exactly one response whose complete "
                   "image (header fields, option bits for the transport, checksums, payload) equals the reference; word-size "
                   "mismatch answered without touching memory; valid responses / meta messages cause neither access nor "
                   "reply. The block starts with arbitrary contents and the responder is stateless, so this covers every "
                   "interleaving of requests on a session.",
    "bounds": {"quick": {"LMAX": 20, "payload words": 2, "block": "sizeof(RPFrame)+32"},
               "thorough": {"LMAX": 28, "payload words": 6, "block": "sizeof(RPFrame)+48"}},
    "outside_bounds": ["write payloads beyond the bound", "backend verdicts outside the 12 defined codes",
                       "the real framing code (C12/C13 check its contract)", "sink errors while replying"],
    "stubs": ["framing layer replaced by its contract", "allocator: one exact-size block with arbitrary initial contents",
              "memory backend: logs calls, asserts buffer extent, symbolic verdict/address/data",
              "memcpy/memset/memmove byte loops"],
    "assumptions": ["reference checksums use ufw_crc16_arc (verified in C16)", "little-endian host",
                    "between 'fits behind the request header' and 'exceeds the buffer' a read may be executed or refused "
                    "with ETXOVERFLOW"],
}


def instances(tier):
    lmax, pw, k = (20, 2, 32) if tier == "quick" else (28, 6, 48)
    UW = rc.unwind(lmax, k, pw)
    D = {"LMAX": lmax, "PW": pw, "KEXTRA": k}
    out = [mk("c06_accessmap", "C06/c06.c", rc.UNITS, dict(D, MODE_ACCESSMAP=None), unwind=UW, default_unwind=lmax + 2,
              encoded_units=["include/ufw/register-protocol.h"], fp_removal=True, replay_units=rc.REPLAY_UNITS, object_bits=12)]
    for tcp in (0, 1):
        for mode, extra in (("REQ", "REQ_READ"), ("REQ", "REQ_WRITE"), ("NONREQ", None)):
            d = dict(D, **{"MODE_" + mode: None})
            if extra:
                d[extra] = None
            if tcp:
                d["TCP"] = None
            nm = (extra or mode).lower()
            out.append(mk("c06_%s_%s" % (nm, "tcp" if tcp else "serial"), "C06/c06.c", rc.UNITS, d,
                          unwind=UW, default_unwind=lmax + 2, encoded_units=rc.ENC, fp_removal=True,
                          replay_units=rc.REPLAY_UNITS, object_bits=12, timeout=3000))
    return out
