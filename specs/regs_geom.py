# Table geometries (area bases/sizes, register addresses/word counts) enumerated by the driver for the
# register-table properties whose queries are too expensive with a symbolic geometry (C02, C05).
# Everything else about the table stays symbolic inside each query.
import random


def _feat(areas, regs):
    f = {}
    if regs:
        f["W_REGS"] = None
    if any(w >= 2 for _, w in regs):
        f["W_MULTI"] = None
    if any(w == 4 for _, w in regs):
        f["W_W4"] = None
    mapped = set(a for (b, sz) in areas for a in range(b, b + sz))
    # a block of two words that starts inside a multi-word register and is mapped completely
    if any(w >= 2 and (a + 1) in mapped and (a + 2) in mapped for a, w in regs):
        f["W_INSIDE2"] = None
    if any(areas[i][0] + areas[i][1] == areas[i + 1][0] for i in range(len(areas) - 1)):
        f["W_ADJ"] = None
    if len(areas) >= 2:
        f["W_2AREAS"] = None
    # longest run of contiguously mapped words
    run = best = 0
    prev_end = None
    for (b, sz) in areas:
        run = run + sz if prev_end == b else sz
        best = max(best, run)
        prev_end = b + sz
    f["W_MAXRUN"] = best
    return f


HAND = [
    ("g01", [(16, 6)], [(16, 4), (20, 1)]),
    ("g02", [(16, 6)], [(16, 1), (17, 4), (21, 1)]),
    ("g03", [(16, 4), (20, 4)], [(16, 2), (18, 2), (20, 4)]),
    ("g04", [(16, 3), (21, 5)], [(17, 2), (21, 4), (25, 1)]),
    ("g05", [(16, 6), (24, 2)], [(18, 4), (24, 2)]),
    ("g06", [(0, 5), (5, 1)], [(0, 1), (2, 2), (5, 1)]),
    ("g07", [(16, 2), (18, 6)], [(19, 2), (21, 2), (23, 1)]),
    ("g08", [(16, 4), (22, 2)], []),
    ("g09", [(16, 6)], [(16, 2), (18, 2), (20, 2)]),
    ("g10", [(16, 6), (22, 6)], [(18, 4), (22, 4), (27, 1)]),
    ("g11", [(16, 1), (18, 1)], [(16, 1), (18, 1)]),
    ("g12", [(16, 6), (30, 6)], [(16, 4), (32, 4)]),
    # a register-less area directly behind an area full of registers (seed C05-H: validation bounds taken from the
    # entry run of the area a block ends in)
    ("g13", [(16, 4), (20, 2)], [(16, 2), (18, 2)]),
]

HAND3 = [
    ("h01", [(8, 4), (12, 4), (16, 4)], [(8, 4), (12, 2), (14, 2), (16, 4)]),
    ("h02", [(8, 2), (12, 6), (20, 3)], [(9, 1), (13, 4), (17, 1), (20, 2)]),
    ("h03", [(0, 3), (3, 3), (8, 6)], [(1, 2), (3, 1), (4, 2), (10, 4)]),
    ("h04", [(16, 6), (22, 1), (23, 6)], [(20, 2), (22, 1), (23, 4), (27, 2)]),
]


def _random_geoms(count, na_max, nr_max, aw, seed):
    rnd = random.Random(seed)
    out = []
    for k in range(count):
        na = rnd.randint(1, na_max)
        areas = []
        base = rnd.choice([0, 1, 7, 16])
        for _ in range(na):
            size = rnd.randint(1, aw)
            areas.append((base, size))
            base += size + rnd.choice([0, 0, 1, 2, 3])
        regs = []
        for (b, s) in areas:
            pos = b + rnd.choice([0, 0, 1])
            while len(regs) < nr_max and pos < b + s:
                w = rnd.choice([1, 2, 2, 4, 4])
                if pos + w > b + s:
                    w = rnd.choice([1, 2])
                    if pos + w > b + s:
                        w = 1
                regs.append((pos, w))
                pos += w + rnd.choice([0, 0, 0, 1, 2])
                if rnd.random() < 0.15:
                    break
        out.append(("r%02d" % k, areas, regs))
    return out


def geometries(tier):
    if tier == "quick":
        return [g for g in HAND if g[0] in ("g01", "g02", "g03", "g04", "g06", "g07", "g08", "g11", "g13")]
    return HAND + HAND3 + _random_geoms(24, 3, 4, 6, 20261001)


def dims(tier):
    """(NAREA, NREG, AWORDS)"""
    return (2, 3, 6) if tier == "quick" else (3, 4, 6)


def defines(g):
    name, areas, regs = g
    d = {"GA_N": len(areas), "GR_N": len(regs)}
    for i, (b, s) in enumerate(areas):
        d["GA%d_B" % i] = b
        d["GA%d_S" % i] = s
    for i, (a, w) in enumerate(regs):
        d["GR%d_A" % i] = a
        d["GR%d_W" % i] = w
    d.update(_feat(areas, regs))
    return d


def describe(tier):
    return ["%s: areas %s registers(addr,words) %s" % (n, a, r) for (n, a, r) in geometries(tier)]
