# C10: persistent store/validate/fetch round-trips and stays inside its region
U = ["src/persistent-storage.c", "src/crc-16-arc.c"]

KIND_NAMES = {0: "builtin", 1: "crc16", 2: "sum32", 3: "any16", 4: "any32"}

INFO = {
    "explanation": "src/persistent-storage.c (with the real CRC-16/ARC behind the checksum callback) is executed "
                   "symbolically through its public API against a medium model whose read/write callbacks assert "
                   "that every access lies inside the instance's checksum-plus-data region and fits the caller's "
                   "buffer. One instance per (data size N, checksum kind, auxiliary buffer size, operation); inside an "
                   "instance the placement (32 bit), the initial value, the order of the configuration calls, the "
                   "initial medium content (arbitrary, so every operation is a step from any history), the image, "
                   "the 64-bit (offset,length) pair and the altered octet are symbolic. Checksum kinds: the library's "
                   "built-in trivial sum, CRC-16/ARC (real ufw_crc16_arc), a 32-bit sum, and an ABSTRACT 16/32-bit "
                   "algorithm whose running states over the data image are unconstrained inputs (covers every "
                   "chunk-compositional algorithm of that width). Oracle: the configured algorithm applied in one "
                   "piece to the data image; overlay model for partial stores; mathematical (non-wrapping) "
                   "offset+length for refusals.",
    "bounds": {
        "quick": {"N": "1..4 (enumerated)", "aux": "none, 1..N+1 (enumerated)",
                  "kinds": "roundtrip+alteration: any16 at every aux size; builtin, crc16, sum32, any32 at aux none / (N+1)/2 / N+1. "
                           "store_part: any16 at every aux size; builtin, any32 at the three sizes. reset: builtin (16 bit) at every "
                           "aux size, any32 at the three sizes. fetch_part (does not use the buffer): builtin, any32",
                  "placement": "any 32-bit base with region below 2^32", "offset_len": "full 64-bit",
                  "alteration": "one octet of checksum or data, any value"},
        "thorough": {"N": "1..8 (enumerated)", "aux": "none, 1..N+1 (enumerated)", "kinds": "as quick but every kind at every aux size",
                     "placement": "any 32-bit base", "offset_len": "full 64-bit", "alteration": "one octet"},
    },
    "outside_bounds": ["data sizes above the enumerated N", "auxiliary buffer pointer non-NULL with size 0 "
                       "(the chunk loops of the library do not terminate; not part of the claim)",
                       "checksum callbacks that are not chunk-compositional",
                       "regions that wrap the 32-bit address space", "word-addressed media",
                       "more than one octet altered"],
    "stubs": ["medium: static array + read/write callbacks (harness/C10/c10_common.h), exact transfers",
              "32-bit sum callback s' = 33 s + octet (harness)",
              "abstract checksum callback: returns the input-supplied state after p+n octets when fed state p and the "
              "next n octets of the current image, an unconstrained value otherwise",
              "memcpy/memset byte loops (harness/lib/libc_models.c)"],
    "assumptions": ["the PersistentStorage object holds arbitrary stale octets before persistent_init (symbolic input)",
                    "checksum on the medium is compared in host (little-endian) representation of the 16/32-bit integer",
                    "region [base, base+cs+N) does not wrap 2^32", "order of configuration calls in {sum,place},{place,sum},{no place, base 0}"],
}


def _unwind(n):
    rmax = 4 + n
    msize = rmax + 4
    return {
        "trivialsum": n + 2, "ufw_crc16_arc": n + 2, "cb_sum32": n + 2, "c10_ref": n + 2,
        "persistent_calculate_checksum": n + 2, "persistent_writen": max(4, n) + 2,
        "memset": n + 3, "memcpy": 6,
        "m_read": rmax + 2, "m_write": rmax + 2,
        "a_match": n + 2, "c10_current": n + 2, "c10_same": n + 2,
        "c10_get_data": n + 2, "c10_put_data": n + 2, "c10_data_is": n + 2, "c10_outside_same": msize + 2,
        "c10_medium_same": msize + 2, "c10_snapshot": msize + 2, "c10_begin": msize + 2,
        "c10_set_stale": 200, "c10_instance": 200,
        "dst_guards_same": n + 6, "scenario": msize + 2, "harness": max(6, n + 3),
    }


def _grid(tier):
    """-> list of (mode, n, kind, aux). Every (N, aux) pair is run with the abstract 16-bit algorithm; the other
    kinds (32-bit abstract, built-in, CRC-16/ARC, 32-bit sum) at the aux sizes none / half / N+1 in the quick
    tier and at every aux size in the thorough tier."""
    quick = tier == "quick"
    sizes = range(1, 5) if quick else range(1, 9)
    out = []
    for n in sizes:
        auxs = list(range(0, n + 2))
        sub = sorted(set([0, (n + 1) // 2, n + 1])) if quick else auxs
        for a in auxs:
            out.append(("ROUNDTRIP", n, 3, a))
            out.append(("PART", n, 3, a))
            out.append(("RESET", n, 0, a))
            if a in sub:
                for k in (0, 1, 2, 4):
                    out.append(("ROUNDTRIP", n, k, a))
                for k in (0, 4):
                    out.append(("PART", n, k, a))
                out.append(("RESET", n, 4, a))
        for k in (0, 4):
            out.append(("FETCHPART", n, k, 0))
    return out


def instances(tier):
    out = []
    for (mode, n, k, a) in _grid(tier):
        out.append(mk("c10_%s_n%d_%s_a%d" % (mode.lower(), n, KIND_NAMES[k], a), "C10/c10.c", U,
                      {"MODE_" + mode: None, "VP_DATA_N": n, "VP_KINDS": "0x%xu" % (1 << k), "VP_AUXSET": "0x%xu" % (1 << a)},
                      unwind=_unwind(n), default_unwind=2, fp_removal=True, timeout=1500))
    return out
