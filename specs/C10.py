# C10: persistent store/validate/fetch round-trips and stays inside its region
U = ["src/persistent-storage.c", "src/crc-16-arc.c"]

INFO = {
    "explanation": "src/persistent-storage.c (with the real CRC-16/ARC behind the checksum callback) is executed "
                   "symbolically through its public API against a medium model whose read/write callbacks assert "
                   "that every access lies inside the instance's checksum-plus-data region and fits the caller's "
                   "buffer. Per data size N (one instance each) the placement (32 bit), the checksum kind "
                   "(built-in trivial sum, CRC-16/ARC, a 32-bit sum), its initial value, the order of the "
                   "configuration calls, the auxiliary buffer (none or 1..N+1 octets, exact extent), the initial "
                   "medium content (arbitrary, so every mode is a step from any history), the image, the 64-bit "
                   "(offset,length) pairs and the altered octet are symbolic. Oracle: the configured algorithm "
                   "applied in one piece to the data image; overlay model for partial stores; mathematical "
                   "(non-wrapping) offset+length for refusals.",
    "bounds": {
        "quick": {"N": "1..4 (enumerated)", "aux": "none, 1..N+1", "placement": "any 32-bit base with region below 2^32",
                  "offset_len": "full 64-bit", "alteration": "one octet of checksum or data, any value"},
        "thorough": {"N": "1..8 (enumerated)", "aux": "none, 1..N+1", "placement": "any 32-bit base",
                     "offset_len": "full 64-bit", "alteration": "one octet"},
    },
    "outside_bounds": ["data sizes above the enumerated N", "auxiliary buffer pointer non-NULL with size 0 "
                       "(the chunk loops do not terminate; not part of the claim)",
                       "checksum callbacks that are not chunk-compositional",
                       "regions that wrap the 32-bit address space", "word-addressed media",
                       "more than one octet altered"],
    "stubs": ["medium: static array + read/write callbacks (harness/C10/c10_common.h), exact transfers",
              "32-bit sum callback s' = 33 s + octet (harness)", "memcpy/memset byte loops (harness/lib/libc_models.c)"],
    "assumptions": ["checksum on the medium is compared in host (little-endian) representation of the 16/32-bit integer",
                    "region [base, base+cs+N) does not wrap 2^32", "kind/order/aux within their enumerations"],
}


def _unwind(n):
    rmax = 4 + n
    msize = rmax + 4
    return {
        "trivialsum": n + 2, "ufw_crc16_arc": n + 2, "cb_sum32": n + 2, "c10_ref": n + 2,
        "persistent_calculate_checksum": n + 2, "persistent_writen": max(4, n) + 2,
        "memset": n + 3, "memcpy": 6,
        "m_read": rmax + 2, "m_write": rmax + 2,
        "a_match": n + 2, "c10_current": n + 2, "c10_same": n + 2,
        "c10_get_data": n + 2, "c10_put_data": n + 2, "c10_data_is": n + 2, "c10_outside_same": msize + 2,
        "c10_medium_same": msize + 2, "c10_snapshot": msize + 2, "c10_begin": msize + 2,
        "dst_guards_same": n + 6, "scenario": msize + 2, "harness": max(6, n + 3),
    }


def instances(tier):
    sizes = range(1, 5) if tier == "quick" else range(1, 9)
    out = []
    for n in sizes:
        for mode in ("ROUNDTRIP", "PART", "RESET"):
            out.append(mk("c10_%s_n%d" % (mode.lower(), n), "C10/c10.c", U,
                          {"MODE_" + mode: None, "N": n}, unwind=_unwind(n), default_unwind=2,
                          fp_removal=True, timeout=1500))
    return out
