# C17: endpoints move exactly N octets in order whatever the driver does
CORE = ["src/endpoints/core.c", "src/byte-buffer.c"]

INFO = {
    "explanation": "",
    "bounds": {},
    "outside_bounds": [],
    "stubs": [],
    "assumptions": [],
}


def _getput(tier):
    nmax, stall = (3, 2) if tier == "quick" else (6, 3)
    slen = nmax + stall + 1
    out = []
    for op in ("GET", "PUT", "GET_ATMOST", "PUT_ATMOST"):
        for kind in ("octet", "chunk"):
            d = {"OP_" + op: None, "NMAX": nmax, "STALL": stall}
            if kind == "octet":
                d["KIND_OCTET"] = None
            # retry loop of the function under test: one round per driver call
            # (chunk driver) or one round in total (octet driver: the adaptor
            # loop does the rounds) + the round in which a breach is answered
            outer = slen + 2 if kind == "chunk" else 3
            uw = {"c17_script_ok": slen + 1, "c17_drv_init": slen + 1, "c17_call": nmax + 1,
                  "c17_same": nmax + 1, "c17_frame": nmax + 5, "harness": nmax + 5,
                  "source_get_chunk": outer, "sink_put_chunk": outer,
                  "source_adapt": slen + 2, "sink_adapt": slen + 2}
            out.append(mk("c17_%s_%s_n%d" % (op.lower(), kind, nmax), "C17/c17_getput.c", CORE, d,
                          unwind=uw, default_unwind=2, fp_removal=True))
    return out


STS_OPS = ("CBC", "SOME", "ATMOST", "SOME_AUX", "ATMOST_AUX", "N_CBC", "N", "N_AUX",
           "DRAIN_CBC", "DRAIN", "DRAIN_AUX")


def _sts(tier):
    nmax, stall, auxmax = (3, 2, 3) if tier == "quick" else (5, 3, 4)
    slen = (nmax + 1) + stall + 1
    out = []
    for op in STS_OPS:
        for sk in ("octet", "chunk"):
            for kk in ("octet", "chunk"):
                d = {"OP_" + op: None, "NMAX": nmax, "STALL": stall, "AUXMAX": auxmax}
                if sk == "octet":
                    d["SRC_OCTET"] = None
                if kk == "octet":
                    d["SNK_OCTET"] = None
                aux = op.endswith("_AUX")
                per_op = (auxmax if aux else 1) + stall + 3
                uw = {"c17_script_ok": slen + 1, "c17_drv_init": slen + 1,
                      "c17_call": (auxmax if aux else 1) + 1,
                      "c17_same": nmax + 2, "c17_frame": auxmax + 5, "harness": max(auxmax + 5, nmax + 2),
                      "memcpy": 33, "memmove": auxmax + 1,
                      "source_get_chunk": 3 if sk == "octet" else per_op,
                      "sink_put_chunk": 3 if kk == "octet" else per_op,
                      "source_adapt": per_op, "sink_adapt": per_op}
                for f in ("sts_n_cbc", "sts_drain_cbc", "sts_n", "sts_drain", "sts_n_aux", "sts_drain_aux"):
                    uw[f] = slen + 2
                out.append(mk("c17_sts_%s_%s_%s_n%d" % (op.lower(), sk, kk, nmax), "C17/c17_sts.c", CORE, d,
                              unwind=uw, default_unwind=2, fp_removal=True))
    return out


def instances(tier):
    return _getput(tier) + _sts(tier)
