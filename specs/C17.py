# C17: endpoints move exactly N octets in order whatever the driver does
CORE = ["src/endpoints/core.c", "src/byte-buffer.c"]

INFO = {
    "explanation": "",
    "bounds": {},
    "outside_bounds": [],
    "stubs": [],
    "assumptions": [],
}


def _getput(tier):
    nmax, stall = (3, 2) if tier == "quick" else (6, 3)
    slen = nmax + stall + 1
    du = max(slen, nmax + 4) + 3
    out = []
    for op in ("GET", "PUT", "GET_ATMOST", "PUT_ATMOST"):
        out.append(mk("c17_%s_n%d" % (op.lower(), nmax), "C17/c17_getput.c", CORE,
                      {"OP_" + op: None, "NMAX": nmax, "STALL": stall},
                      default_unwind=du, fp_removal=True))
    return out


def instances(tier):
    return _getput(tier)
