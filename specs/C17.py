# C17: endpoints move exactly N octets in order whatever the driver does
CORE = ["src/endpoints/core.c", "src/byte-buffer.c"]

INFO = {
    "explanation":
        "src/endpoints/core.c (with the real src/byte-buffer.c, and src/endpoints/buffer.c + trivial.c for the "
        "buffer-backed instances) is executed symbolically by CBMC against SCRIPTED drivers (harness/C17/c17_drv.h): "
        "a driver is a position in an octet array plus a behaviour script taken from the input struct; per call the "
        "script answers 'move min(count, asked) octets' (1, 2, k, all), 0, -EINTR, -EAGAIN (at most STALL non-progress "
        "answers per driver, afterwards such an entry moves octets) or a hard error with a symbolic code (any negative "
        "int except -EINTR/-EAGAIN, so -ENOMEM/-ENODATA/-EIO are included). A source whose stream ends answers -ENODATA. "
        "The stub never assumes a call away; it ASSERTS that the code never asks for more octets than the operation was "
        "told to move, never calls again after a hard error / the end of the stream (one sticky extra call is tolerated "
        "for an octet source behind the auxiliary-buffer operations, where an at-most read must first hand out the octets "
        "it already took), and never needs more calls than octets + STALL + 1. Oracle = fold of the script, written from "
        "the property text: c17_get_*/c17_put_* (source_get_chunk / sink_put_chunk; octet and chunk driver): N == 0 or "
        "N > SSIZE_MAX => -EINVAL with no driver call and nothing written; hard error => returned unchanged; otherwise "
        "returns N, destination/sink holds exactly the next N octets in order, position advanced by exactly N, nothing "
        "outside the N octets written, the caller's buffer is not modified. c17_*_atmost_*: never more than asked, a "
        "non-negative return is the count moved and those octets are the next ones in order, no error unless a driver "
        "reported one. c17_sts_<op>_<src>_<snk>: all eleven sts_* entry points between a scripted source and a scripted "
        "sink (getbuffer extension NULL as in every shipped endpoint): the sink always holds a prefix of the stream; "
        "counted operations succeed iff exactly N octets arrived (source advanced by exactly N), must succeed when no "
        "driver call failed, must fail after a hard error or an early end of the stream; drain operations move "
        "everything up to the source's end when nothing but that end stops them; at-most operations return the count "
        "that arrived without losing an octet taken from the source; octets of the auxiliary buffer's memory outside "
        "data[offset..used) (some/atmost) resp. data[0..used) (n/drain, which rewind) and the guard octets around it "
        "are untouched. c17_buf_*/c17_chunks_*/c17_trivial_*/c17_plumb_*: source_from_buffer, source_from_chunks, "
        "sink_to_buffer, source_zero/source_empty/sink_null through the public API and sts_* between real buffer "
        "endpoints, compared with the byte-buffer FIFO model of C18. c17_big_get/put: pointer-level "
        "bookkeeping of the two exact-N loops with CHUNK drivers for every N in 1..2^34 (no octet is moved, the "
        "driver stub records request size and position and answers any ssize_t count <= asked, 0, -EINTR/-EAGAIN or a "
        "hard error): each call asks for exactly the missing octets right behind those moved, result is N or the "
        "hard error; scripts that finish within CALLS (3 / 5) driver calls.",
    "bounds": {
        "quick": {"get/put/at-most": "N 0..3 and every N > SSIZE_MAX, STALL 2 per run, scripts of 6 calls, octet and "
                                     "chunk driver, any stream/destination contents, any hard error code",
                  "sts_*": "count 0..3, stream of 0..4 octets (auxiliary-buffer operations: 0..2 and 0..3), STALL 1 per "
                           "driver, scripts of 6 (5) calls per driver, "
                           "aux buffer size 1..2 (1..4 for sts_some_aux/sts_atmost_aux) with every valid (used, offset) and a non-empty region; driver pairs "
                           "octet/octet and chunk/chunk",
                  "buffer endpoints": "buffers of 1..3 octets in every valid state, operands 0..4; ByteChunks of 2 "
                                      "chunks x 0..2 unread octets, every `active`, every n 1..4 (enumerated)"},
        "thorough": {"get/put/at-most": "N 0..6 and every N > SSIZE_MAX, STALL 3, scripts of 10 calls",
                     "sts_*": "count 0..6 and stream 0..7 (auxiliary-buffer operations: 0..3 and 0..4), STALL 2 (1 for "
                              "sts_n_aux/sts_drain_aux), aux buffer 1..3, "
                              "all four driver-style pairs",
                     "buffer endpoints": "buffers 1..5, operands 0..6, 3 chunks x 0..2 unread octets; plus "
                                         "sts_n_aux/sts_drain_aux between real buffer endpoints"},
    },
    "outside_bounds": [
        "drivers that stall more than STALL times per run (unbounded stalling legitimately never terminates)",
        "counts/streams above the stated sizes; data movement for N in NMAX+1..SSIZE_MAX (the caller would have to own "
        "that many octets; c17_big_* decide only the request bookkeeping of the chunk-driver loops, N <= 2^34)",
        "endpoints that implement the getbuffer extension (no shipped endpoint does; sts_atmost_via_sink / "
        "sts_atmost_via_source are only reached up to their NULL test)",
        "auxiliary buffer with an empty region (used == offset), sts_atmost_aux/sts_atmost with n == 0, at-most "
        "variants with n == 0 or n > SSIZE_MAX (the property text is silent)",
        "drivers that break their contract (return more than asked, octet driver returning > 1)",
        "the 'random long transfers with random scripts' part of the quantifier (bounded model checking only)",
        "file-descriptor endpoints (posix.c), instrumentable and continuable endpoints (other properties)",
    ],
    "stubs": ["scripted source/sink drivers (harness/C17/c17_drv.h) replace real media",
              "memcpy/memmove/memset: exact byte loops (harness/lib/libc_models.c)"],
    "assumptions": [
        "drivers follow the contract in core.c's header comment: return the number of octets moved (<= asked), 0, "
        "-EINTR/-EAGAIN without moving anything, or a negative error without moving anything; hard errors and the end "
        "of a stream are sticky",
        "c17_chunks_source enumerates chunk layout, active, n and operation with concrete loops (octet values stay "
        "symbolic) because CBMC 6.11 mis-merges the block-scope variable of read_from_chunks' backward goto when "
        "iterations are merged symbolically (spurious counterexamples only, observed and isolated)",
    ],
}


def _getput(tier):
    nmax, stall = (3, 2) if tier == "quick" else (6, 3)
    slen = nmax + stall + 1
    out = []
    for op in ("GET", "PUT", "GET_ATMOST", "PUT_ATMOST"):
        for kind in ("octet", "chunk"):
            d = {"OP_" + op: None, "NMAX": nmax, "STALL": stall}
            if kind == "octet":
                d["KIND_OCTET"] = None
            # retry loop of the function under test: one round per driver call
            # (chunk driver) or one round in total (octet driver: the adaptor
            # loop does the rounds) + the round in which a breach is answered
            outer = slen + 2 if kind == "chunk" else 3
            uw = {"c17_script_ok": slen + 1, "c17_src_init": slen + 1, "c17_snk_init": slen + 1,
                  "c17_src_call": nmax + 1, "c17_snk_call": nmax + 1, "c17_same": nmax + 1, "c17_frame": nmax + 5, "harness": nmax + 5,
                  "source_get_chunk": outer, "sink_put_chunk": outer,
                  "source_adapt": slen + 2, "sink_adapt": slen + 2}
            out.append(mk("c17_%s_%s_n%d" % (op.lower(), kind, nmax), "C17/c17_getput.c", CORE, d,
                          unwind=uw, default_unwind=2, fp_removal=True))
    return out


STS_OPS = ("CBC", "SOME", "ATMOST", "SOME_AUX", "ATMOST_AUX", "N_CBC", "N", "N_AUX",
           "DRAIN_CBC", "DRAIN", "DRAIN_AUX")


def _sts(tier):
    out = []
    for op in STS_OPS:
        nmax, stall, auxmax = (2, 1, 2) if tier == "quick" else (3, 2, 3)
        if tier != "quick" and op in ("N_AUX", "DRAIN_AUX"):
            stall = 1  # rounds x adaptor loops x retry loops: the most expensive instances
        if op in ("ATMOST_AUX", "SOME_AUX"):
            # single-call operations are cheap: a larger auxiliary buffer lets the solver place the designated
            # region anywhere (offset >= 2 with n <= offset is what the seeded change C17-B needs)
            auxmax = 4
        if not op.endswith("_AUX"):
            nmax = 3 if tier == "quick" else 6  # no nested retry loops: cheap
        smax = nmax + 1
        slen = smax + stall + 1
        for sk in ("octet", "chunk"):
            for kk in ("octet", "chunk"):
                if tier == "quick" and sk != kk:
                    continue  # the two sides are independent code paths; mixed pairs: thorough
                d = {"OP_" + op: None, "NMAX": nmax, "STALL": stall, "AUXMAX": auxmax}
                if sk == "octet":
                    d["SRC_OCTET"] = None
                if kk == "octet":
                    d["SNK_OCTET"] = None
                aux = op.endswith("_AUX")
                m = auxmax if aux else 1  # largest request a driver sees
                # Bounds are "iterations of the repaired code + 1"; a tree that needs more rounds
                # trips an unwinding assertion (reported, never a pass).
                retry = m + stall + 1     # rounds of a retry loop: progress + stalls
                uw = {"c17_script_ok": slen + 1, "c17_src_init": slen + 1, "c17_snk_init": slen + 1,
                      "c17_src_call": m + 1, "c17_snk_call": m + 1, "c17_same": smax + 1, "c17_frame": auxmax + 5, "harness": max(auxmax + 5, smax + 1),
                      "memcpy": 33, "memmove": auxmax + 1,
                      # octet driver: the adaptor loop does the rounds, the API loop runs once
                      "source_get_chunk": 2 if sk == "octet" else retry,
                      "sink_put_chunk": 2 if kk == "octet" else retry,
                      "source_adapt": retry, "sink_adapt": retry,
                      "sts_cbc": stall + 2,
                      "sts_n_cbc": nmax + 1, "sts_n": nmax + 1, "sts_n_aux": nmax + stall + 2,
                      "sts_drain_cbc": smax + 2, "sts_drain": smax + 2, "sts_drain_aux": smax + stall + 2}
                out.append(mk("c17_sts_%s_%s_%s_n%d" % (op.lower(), sk, kk, nmax), "C17/c17_sts.c", CORE, d,
                              unwind=uw, default_unwind=2, fp_removal=True))
    return out


BUF = CORE + ["src/endpoints/buffer.c", "src/endpoints/trivial.c"]


def _bufeps(tier):
    # three chunks also in quick: "an exhausted chunk directly followed by an empty one" needs them (seed C17-C)
    sz, nch, szc = (3, 3, 2) if tier == "quick" else (5, 3, 2)
    total = nch * szc
    nop = sz + 1
    big = total + nop + 4 + 1
    layouts = (szc + 1) ** nch
    out = []
    base = {"SZ": sz, "NCH": nch, "SZC": szc, "LAYOUTS": layouts}
    uw = {"same": max(total, nop) + 1, "frame": big, "harness": max(big, layouts + 1),
          "chunks_stream": max(nch, szc) + 1,
          "memcpy": nop + 1, "memmove": sz + 1, "memset": nop + 1,
          # every round of the retry loops moves >= 1 octet or ends with an error
          "source_get_chunk": nop + 2, "sink_put_chunk": nop + 2,
          "read_from_chunks": nch + 2}
    for mode in ("BUF_SOURCE", "CHUNKS_SOURCE", "BUF_SINK", "TRIVIAL"):
        d = dict(base)
        d["MODE_" + mode] = None
        out.append(mk("c17_%s_sz%d" % (mode.lower(), sz), "C17/c17_bufeps.c", BUF, d,
                      unwind=uw, default_unwind=2, fp_removal=True,
                      object_bits=12 if mode == "CHUNKS_SOURCE" else None))
    names = ("n", "n_cbc", "n_aux", "drain", "drain_cbc", "drain_aux")
    for op in range(6):
        if tier == "quick" and op in (2, 5):
            continue  # auxiliary-buffer plumbing over real endpoints: thorough (scripted: c17_sts_*_aux)
        d = dict(base)
        d["MODE_PLUMB"] = None
        d["PLUMB_OP"] = op
        u = dict(uw)
        # the buffer endpoints take or give everything they are asked for at once
        # (memcpy: sts_atmost_aux copies the 32-octet ByteBuffer descriptor)
        u.update({"source_get_chunk": 3, "sink_put_chunk": 3, "memcpy": 33 if op in (2, 5) else nop + 1})
        rounds = sz + 3
        for f in ("sts_n_cbc", "sts_drain_cbc", "sts_n", "sts_drain", "sts_n_aux", "sts_drain_aux"):
            u[f] = rounds
        out.append(mk("c17_plumb_%s_sz%d" % (names[op], sz), "C17/c17_bufeps.c", BUF, d,
                      unwind=u, default_unwind=2, fp_removal=True))
    return out


def _big(tier):
    # pointer-level bookkeeping of the exact-N loops for N up to 2^34 (seed C17-G: ssize_t answers narrowed to int)
    calls = 3 if tier == "quick" else 5
    out = []
    for op in ("GET", "PUT"):
        out.append(mk("c17_big_%s_calls%d" % (op.lower(), calls), "C17/c17_big.c", CORE,
                      {"OP_" + op: None, "CALLS": calls},
                      unwind={"harness": calls + 2, "source_get_chunk": calls + 3, "sink_put_chunk": calls + 3},
                      default_unwind=2, fp_removal=True))
    return out


def instances(tier):
    return _getput(tier) + _sts(tier) + _bufeps(tier) + _big(tier)
