# C03: block reads and range iteration follow the flat address-space model
ENC = ["src/registers/core.c"]
INFO = {
    "explanation": "register_block_read (register_block_touches_hole, register_block_read_unsafe) and "
                   "register_foreach_in (find_area, find_reg, reg_iterate) executed symbolically over a symbolic table "
                   "description with arbitrary stored words; the read buffer is an object that ends exactly after n "
                   "words (any write past it is an array-bounds failure) and the words in front of it are compared; "
                   "the iteration callback logs handles and returns a scripted symbolic verdict per call.",
    "bounds": {"quick": {"NAREA": "2 (3 with one register for reads of 2 words)", "NREG": 3, "AWORDS": 6, "NMAX": 5, "addr": "all 32 bits", "range length": "all 32 bits, no wrap"},
               "thorough": {"NAREA": 3, "NREG": 4, "AWORDS": 6, "NMAX": 8}},
    "outside_bounds": ["larger tables / longer reads", "ranges whose end wraps 2^32 (documented REGISTER_ADDRESS_MAX idiom)",
                       "custom read callbacks that fail", "areas without read callback in the iteration instance",
                       "buffer contents after a failed read"],
    "stubs": ["memcpy/memset byte loops", "custom area callbacks over a shadow array", "iteration callback: log + script"],
    "assumptions": ["linked table state constructed from a well-formed description (see C04)", "little-endian host"],
}


def instances(tier):
    if tier == "quick":
        na, nr, aw, nm = 2, 3, 6, 5
    else:
        na, nr, aw, nm = 3, 4, 6, 8
    D = {"NAREA": na, "NREG": nr, "AWORDS": aw, "NMAX": nm}
    m = max(na, nr)
    UW = {"memcpy": 2 * nm + 2, "memset": 2 * nm + 2, "vp_build": m + 3, "vp_desc_wellformed": m + 2,
          "ref_area_of": na + 2, "ref_layout_ok": m + 2, "vp_link_direct": m + 2, "ref_area_first": nr + 2,
          "vp_custom_read": aw + 1, "vp_custom_write": aw + 1, "vp_snap": max(aw, nr) + 2, "vp_mem_equal": aw + 2,
          "harness": max(aw, nm, m, nr + 2) + 3, "ra_find_area_by_addr": na + 2,
          "register_block_touches_hole": nm + 2, "register_block_read_unsafe": nm + 2,
          "find_area": na + 2, "find_reg": nr + 2, "reg_iterate": nr + 2}
    out = []
    for nfix in range(0, nm + 1):
        d = dict(D)
        d["MODE_READ"] = None
        d["NFIX"] = nfix
        d["NMAX"] = max(nfix, 1)
        out.append(mk("c03_read_n%d" % nfix, "C03/c03.c", [], d, unwind=UW, default_unwind=3, encoded_units=ENC,
                      fp_removal=True, timeout=2400, object_bits=12))
    if tier == "quick":
        # three areas (an empty area listed between two adjacent ones: seed C03-H), one register, reads of 2 words
        d = {"NAREA": 3, "NREG": 1, "AWORDS": aw, "NMAX": 2, "MODE_READ": None, "NFIX": 2}
        uw = dict(UW)
        uw.update({"vp_build": 6, "vp_desc_wellformed": 5, "ref_area_of": 5, "ref_layout_ok": 5, "vp_link_direct": 5,
                   "ra_find_area_by_addr": 5, "find_area": 5})
        out.append(mk("c03_read_a3_n2", "C03/c03.c", [], d, unwind=uw, default_unwind=3, encoded_units=ENC,
                      fp_removal=True, timeout=2400, object_bits=12))
    d = dict(D)
    d["MODE_ITER"] = None
    out.append(mk("c03_iter", "C03/c03.c", [], d, unwind=UW, default_unwind=3, encoded_units=ENC,
                  fp_removal=True, timeout=2400, object_bits=12))
    return out
