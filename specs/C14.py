# C14: varint coding is canonical, lossless and bounded
U = ["src/variable-length-integer.c", "src/byte-buffer.c",
     "src/endpoints/buffer.c", "src/endpoints/core.c"]

INFO = {
    "explanation": "src/variable-length-integer.c (with the real byte buffer and buffer endpoints) executed "
                   "symbolically. Round trip (one instance per kind u32/s32/u64/s64): for a fully symbolic value the "
                   "length query, the encoder's return value, fill mark and octets (buffer and sink variants) are "
                   "compared with a reference minimal LEB128 written from the definition; the reference octets are "
                   "then decoded from a buffer whose memory ends exactly after the varint, from a source reading a "
                   "byte buffer and octet-wise from a scripted octet source: value, count and consumption are "
                   "asserted. Agreement (one instance per block size N = 1..11): an arbitrary octet string oct[off..N) "
                   "(off symbolic, so every truncation point coincides with the end of the block) is given to the "
                   "buffer decoder and to the source decoder of a solver-chosen kind; verdict, value, count and "
                   "consumed octets must agree, an unterminated string of the maximum length must be -EILSEQ in both, "
                   "a string cut off by the end of the block must be an error of the buffer decoder that leaves the "
                   "read mark alone, canonical strings must decode to the reference value, and every access of the "
                   "real code must stay inside the N-octet block (cbmc pointer/bounds checks; ASan on an exact-size "
                   "heap block in the replay).",
    "bounds": {
        "quick": {"value": "all 2^32 resp. 2^64 values of each kind", "octet_string": "every string of 0..11 octets "
                  "(block sizes 1,2,4,5,6,9,10,11; shorter strings via the start offset)",
                  "decode_buffer": "0..2 octets in front of the varint, fill mark = size or 0"},
        "thorough": {"value": "all values", "octet_string": "every string of 0..11 octets, block sizes 1..11 each "
                     "with every start offset"},
    },
    "outside_bounds": ["octet strings longer than 11 octets (no decoder looks past the 10th octet)",
                       "encoding into buffers that are not fresh (used/offset != 0) or have less than 5/10 octets of "
                       "space (the property does not say where such an encoding goes)",
                       "sources that stall (return 0 / -EAGAIN / -EINTR) or fail with a hard error in the middle of "
                       "a varint", "decode buffers whose fill mark is neither 0 nor the size"],
    "stubs": ["memcpy: exact byte loop (harness/lib/libc_models.c)",
              "scripted octet source (harness): one octet per call, then -ENODATA"],
    "assumptions": ["the octets a buffer decoder may read are data[offset..size): the repository's own tests decode "
                    "from buffers whose fill mark is 0, so the fill mark cannot be the bound",
                    "a signed value is coded as its two's-complement image at its own width (as the repository's "
                    "test tables have it)"],
}

KIND = {"u32": 0, "s32": 1, "u64": 2, "s64": 3}


def instances(tier):
    out = []
    # bounds = iterations + 1; every loop here runs at most 10 times (10 octets / 10 septets)
    uw_rt = {"memcpy": 12, "varint_encode": 12, "varint_decode": 12, "varint_from_source": 12,
             "varint_u64_length": 12, "sink_put_chunk": 3}
    uw_ag = {"memcpy": 12, "varint_decode": 12, "varint_from_source": 12}
    for name in ("u32", "s32", "u64", "s64"):
        out.append(mk("c14_roundtrip_" + name, "C14/c14.c", U,
                      {"MODE_ROUNDTRIP": None, "KIND": KIND[name]},
                      unwind=uw_rt, default_unwind=13, fp_removal=True,
                      desc="round trip, every %s value" % name))
    sizes = (1, 2, 4, 5, 6, 9, 10, 11) if tier == "quick" else range(1, 12)
    for n in sizes:
        out.append(mk("c14_agree_n%d" % n, "C14/c14.c", U, {"MODE_AGREE": None, "N": n},
                      unwind=uw_ag, default_unwind=13, fp_removal=True,
                      desc="decoder agreement, block of exactly %d octets" % n))
    return out
