# C18: byte buffers keep 0 <= offset <= used <= size and behave as a FIFO
U = ["src/byte-buffer.c"]
INFO = {
    "explanation": "One-step induction over src/byte-buffer.c: from an arbitrary state satisfying "
                   "offset <= used <= size (size 1..SZ, arbitrary contents, canary octets on both sides) one "
                   "operation chosen by the solver (add, consume, consume_at_most, rewind, reset, clear, repeat, "
                   "avail/rest, set/use/space) with an arbitrary operand (length 0..SZ+1, exact-size operand) is "
                   "executed by the real code and compared with a list model; invariant and frame conditions are "
                   "asserted afterwards. Since the pre-state is arbitrary, the result covers histories of any length "
                   "for buffers up to SZ octets.",
    "bounds": {"quick": {"SZ": 4, "operand_len": "0..5", "setup_args": "full 64-bit size/used/offset"},
               "thorough": {"SZ": 8, "operand_len": "0..9", "setup_args": "full 64-bit"}},
    "outside_bounds": ["buffers larger than SZ octets", "operand lengths > SZ+1 (an operand of that length cannot "
                       "be passed legally: the caller must own n octets)", "byte_buffer_null()'ed buffers"],
    "stubs": ["memcpy/memmove/memset: exact byte loops (harness/lib/libc_models.c)"],
    "assumptions": ["pre-state satisfies the representation invariant (established by byte_buffer_set/use/space, "
                    "which the set-up branch checks)"],
}


def instances(tier):
    sz = 4 if tier == "quick" else 8
    n = sz + 2 * 2 + 2
    return [mk("c18_step_sz%d" % sz, "C18/c18.c", U, {"SZ": sz},
               unwind={"memcpy": n + 2, "memmove": n + 2, "memset": n + 2, "harness": n + 3},
               default_unwind=4)]
