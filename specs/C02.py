# C02: block writes are validated as a whole and are all-or-nothing
import importlib.util, os
_sp = importlib.util.spec_from_file_location("regs_geom", os.path.join(os.path.dirname(__file__), "regs_geom.py"))
geom = importlib.util.module_from_spec(_sp)
_sp.loader.exec_module(geom)

ENC = ["src/registers/core.c"]

INFO = {
    "explanation": "register_block_write (ra_writeable, register_block_touches_hole, ra_malformed_write, "
                   "register_block_write_unsafe, reg_taint_in_range) executed symbolically. One query per table "
                   "GEOMETRY (area bases/sizes, register addresses/word counts: enumerated by the driver, listed under "
                   "bounds); inside a query the area flags, write-callback presence, backing kind (memory/callback), "
                   "register types within their size class, constraint kinds and both 64-bit bounds, byte order, all "
                   "stored words, the touched marks, the request address (all 32 bits), the length n (0..NMAX) and the "
                   "block words are symbolic. The caller's buffer is an object that ends exactly after n words. "
                   "Arbitrary pre-state => a single call covers 'evolving table contents'. Oracle: flat address-space "
                   "reference (mapped / writable / overlay decodes and satisfies its constraint; first failing address "
                   "per failure class, any class that genuinely applies is accepted).",
    "bounds": {"quick": {"NAREA": 2, "NREG": 3, "AWORDS": 6, "NMAX": 5, "addr": "all 32 bits",
                         "geometries": geom.describe("quick")},
               "thorough": {"NAREA": 3, "NREG": 4, "AWORDS": 6, "NMAX": 8, "addr": "all 32 bits",
                            "geometries": geom.describe("thorough")}},
    "outside_bounds": ["geometries other than the enumerated ones (a symbolic geometry was measured at > 40 min per "
                       "query and abandoned)", "zero-size areas (an empty read-only area makes ra_writeable report "
                       "READONLY for an address that is not mapped at all; recorded as an observation in DESIGN.md)",
                       "areas without read callback", "2^32 wrap of base+size",
                       "custom area callbacks that report failure",
                       "whether touched marks may change on a refused write",
                       "whether the caller's buffer is left unmodified"],
    "stubs": ["memcpy/memset byte loops", "custom area read/write over a shadow array (always succeed)",
              "validator callback (bits & mask) == pattern with symbolic mask/pattern"],
    "assumptions": ["linked table state constructed from a well-formed description (C04 checks that register_init "
                    "produces exactly this state)", "little-endian host"],
}


def instances(tier):
    na, nr, aw = geom.dims(tier)
    nm = 5 if tier == "quick" else 8
    m = max(na, nr)
    UW = {"memcpy": 2 * max(4, nm) + 2, "memset": 10, "vp_build": m + 3, "vp_desc_wellformed": m + 2,
          "ref_area_of": na + 2, "ref_layout_ok": m + 2, "vp_link_direct": m + 2, "ref_area_first": nr + 2,
          "vp_custom_read": aw + 1, "vp_custom_write": aw + 1, "vp_snap": max(aw, nr) + 2, "vp_mem_equal": aw + 2,
          "harness": max(aw, nm, m) + 3, "ref_decode": 10, "overlay_octets": 6, "reg_overlapped": 6,
          "reg_at": nr + 2, "ra_writeable": na + 2, "ra_malformed_write": nr + 2, "ra_find_area_by_addr": na + 2,
          "register_block_touches_hole": nm + 2, "register_block_write_unsafe": nm + 2,
          "reg_taint_in_range": nr + 2}
    out = []
    for g in geom.geometries(tier):
        d = {"NAREA": na, "NREG": nr, "AWORDS": aw, "NMAX": nm}
        d.update(geom.defines(g))
        out.append(mk("c02_write_%s" % g[0], "C02/c02.c", [], d, unwind=UW, default_unwind=3, encoded_units=ENC,
                      fp_removal=True, timeout=3000, object_bits=12))
    return out
