# C02: block writes are validated as a whole and are all-or-nothing
ENC = ["src/registers/core.c"]

INFO = {
    "explanation": "register_block_write (ra_writeable, register_block_touches_hole, ra_malformed_write, "
                   "register_block_write_unsafe, reg_taint_in_range) executed symbolically over a symbolic table "
                   "description, arbitrary stored words and touched marks, arbitrary (address, n, words); the "
                   "caller's buffer is an object that ends exactly after n words so any access beyond it is an "
                   "array-bounds failure. Oracle: flat address-space reference in the harness (mapped / writable / "
                   "overlay decodes and satisfies constraint, first failing address per failure class).",
    "bounds": {"quick": {"NAREA": 2, "NREG": 3, "AWORDS": 6, "NMAX": 5, "addr": "all 32 bits"},
               "thorough": {"NAREA": 3, "NREG": 4, "AWORDS": 6, "NMAX": 8, "addr": "all 32 bits"}},
    "outside_bounds": ["more areas / registers / longer blocks than the bound", "areas without read callback",
                       "area or register addresses above 0x7fffff00 (2^32 wrap of base+size)",
                       "custom area callbacks that report failure", "whether touched marks may change on a refused write",
                       "whether the caller's buffer is left unmodified"],
    "stubs": ["memcpy/memset byte loops", "custom area read/write over a shadow array (always succeed)",
              "validator callback (bits & mask) == pattern"],
    "assumptions": ["linked table state constructed from a well-formed description (C04 checks that register_init "
                    "produces exactly this state)", "little-endian host"],
}


def instances(tier):
    if tier == "quick":
        na, nr, aw, nm = 2, 3, 6, 5
    else:
        na, nr, aw, nm = 3, 4, 6, 8
    D = {"NAREA": na, "NREG": nr, "AWORDS": aw, "NMAX": nm}
    m = max(na, nr)
    UW = {"memcpy": 2 * na * aw + 2, "memset": 10, "vp_build": m + 3, "vp_desc_wellformed": m + 2,
          "ref_area_of": na + 2, "ref_layout_ok": m + 2, "vp_link_direct": m + 2, "ref_area_first": nr + 2,
          "vp_custom_read": aw + 1, "vp_custom_write": aw + 1, "vp_snap": nr + 2, "vp_mem_equal": aw + 2,
          "harness": max(aw, nm, m) + 3, "ref_decode": 10, "overlay_octets": 6, "reg_overlapped": 6,
          "reg_at": nr + 2, "ra_writeable": na + 2, "ra_malformed_write": nr + 2, "ra_find_area_by_addr": na + 2,
          "register_block_touches_hole": nm + 2, "register_block_write_unsafe": nm + 2,
          "reg_taint_in_range": nr + 2}
    return [mk("c02_write", "C02/c02.c", [], D, unwind=UW, default_unwind=3, encoded_units=ENC,
               fp_removal=True, timeout=2400, object_bits=12)]
