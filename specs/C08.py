# C08: every emitted frame is spec-conformant and round-trips through the receiver
import importlib.util, os
_sp = importlib.util.spec_from_file_location("regp_common", os.path.join(os.path.dirname(__file__), "regp_common.py"))
rc = importlib.util.module_from_spec(_sp)
_sp.loader.exec_module(rc)

INFO = {
    "explanation": "Every emit entry point (regp_req_read8/16, regp_req_write8/16, regp_resp_ack with and without payload, "
                   "the eleven regp_resp_e*, regp_resp_meta; the replies regp_process/regp_recv produce are checked "
                   "against the same reference in C06/C07/C09) with symbolic arguments, transport, memory word size and "
                   "session counter: the octets handed to the framer equal the reference encoding of doc/regp.txt "
                   "(big-endian fields, CRC-16/ARC header and payload checksums exactly on serial links, payload checksum "
                   "only with payload), the framer selected is classic SLIP on serial and the varint length prefix on TCP, "
                   "request emitters use the session counter and increment it mod 2^16; the same octets fed to the "
                   "library's own regp_recv are accepted and yield identical type, options, code, sequence, address, "
                   "block size and payload.",
    "bounds": {"quick": {"payload words": 2, "LMAX": 20}, "thorough": {"payload words": 6, "LMAX": 28}},
    "outside_bounds": ["payloads beyond the bound", "octets on the wire after framing (SLIP escaping of control "
                       "characters and varint boundaries are C12 / C13 on the real framers)",
                       "regp_resp_ack called with a NULL payload and a non-zero count", "sink errors",
                       "response entry points called with a non-request frame"],
    "stubs": ["framing layer replaced by its contract (records framer, mode, chunk octets)", "allocator block",
              "bit-serial CRC specification instead of the table (C16)", "memcpy/memset byte loops"],
    "assumptions": ["little-endian host", "reference checksums use the same CRC routine (C16)"],
}


def instances(tier):
    lmax, pw, k = (20, 2, 32) if tier == "quick" else (28, 6, 48)
    UW = rc.unwind(lmax, k, pw)
    UW["memset"] = 130
    out = []
    groups = [(0, 3, "requests"), (4, 4, "ack"), (5, 10, "errors_a"), (11, 16, "errors_b")]
    for tcp in (0, 1):
        for lo, hi, nm in groups:
            d = {"LMAX": lmax, "PW": pw, "KEXTRA": k, "ENTRY_LO": lo, "ENTRY_HI": hi}
            if tcp:
                d["TCP"] = None
            out.append(mk("c08_%s_%s" % (nm, "tcp" if tcp else "serial"), "C08/c08.c", rc.UNITS, d, unwind=UW,
                          default_unwind=lmax + 2, encoded_units=rc.ENC, fp_removal=True, replay_units=rc.REPLAY_UNITS,
                          object_bits=12, timeout=3000))
    return out
