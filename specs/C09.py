# C09: receiving and processing arbitrary input is memory-safe and resource-exact
import importlib.util, os
_sp = importlib.util.spec_from_file_location("regp_common", os.path.join(os.path.dirname(__file__), "regp_common.py"))
rc = importlib.util.module_from_spec(_sp)
_sp.loader.exec_module(rc)

INFO = {
    "explanation": "regp_recv + regp_process + regp_free on an arbitrary deframed octet string (0..LMAX octets), both "
                   "transports, allocation failing or not, for a set of enumerated allocator block sizes "
                   "sizeof(RPFrame)+K (K listed under bounds): the block is an object of exactly that size with arbitrary "
                   "initial contents, so CBMC's bounds/pointer checks cover every access of the receiver, parser, "
                   "continuable sink, byte buffer and emitters; the backend stub asserts that its buffer covers the "
                   "announced block; the allocator stub keeps a ledger (every block released exactly once; by regp_free "
                   "for a returned frame, by regp_recv itself on a channel error). Behavioural clauses: oversized frame -> "
                   "ERXOVERFLOW response (when a request header is recognisable), read whose answer cannot fit -> "
                   "ETXOVERFLOW with the buffer size and no memory access, allocation failure -> EBUSY response, frames "
                   "shorter than a header incl. the empty one -> bad header encoding; termination by unwinding assertions. "
                   "c09_txerr_*: the transmitting side refuses every frame; the documented loop (recv, process, free) "
                   "still releases every block exactly once, never executes a frame that failed reception or fails the "
                   "independent reading, and returns 0 or the sink's error.",
    "bounds": {"quick": {"LMAX": 20, "K": [1, 12, 14, 16, 17, 24]},
               "thorough": {"LMAX": 28, "K": [1, 2, 11, 12, 13, 14, 15, 16, 17, 20, 24, 28, 32, 40, 48, 64]}},
    "outside_bounds": ["block sizes other than the enumerated ones", "streams longer than LMAX",
                       "the real malloc-backed allocator (ufw_malloc is two lines)",
                       "sink errors while replying other than 'every transmission refused' (c09_txerr_*)",
                       "the reply to an oversized or busy frame whose header is not a recognisable request"],
    "stubs": ["framing layer replaced by its contract", "allocator: exact-size static block, arbitrary contents, ledger",
              "memory backend: asserts buffer extent", "bit-serial CRC specification instead of the table (C16)",
              "memcpy/memset/memmove byte loops"],
    "assumptions": ["between 'fits behind the request header' and 'exceeds the buffer' a read may be executed or refused",
                    "little-endian host"],
}


def instances(tier):
    lmax = 20 if tier == "quick" else 28
    ks = [1, 12, 14, 16, 17, 24] if tier == "quick" else [1, 2, 11, 12, 13, 14, 15, 16, 17, 20, 24, 28, 32, 40, 48, 64]
    out = []
    for k in ks:
        UW = rc.unwind(lmax, k, 2)
        UW["header_ok"] = lmax + 2
        for tcp in (0, 1):
            if tier == "quick" and tcp and k not in (12, 17):
                continue
            for af in (0, 1):
                if af and tier == "quick" and k not in (1, 14, 17):
                    continue
                d = {"LMAX": lmax, "PW": 2, "KEXTRA": k, "ALLOC_FAILS": af}
                if tcp:
                    d["TCP"] = None
                out.append(mk("c09_stream_k%d_%s_%s" % (k, "tcp" if tcp else "serial", "busy" if af else "ok"),
                              "C09/c09.c", rc.UNITS, d, unwind=UW, default_unwind=lmax + 2, encoded_units=rc.ENC,
                              fp_removal=True, replay_units=rc.REPLAY_UNITS, object_bits=12, timeout=3000, mem_gb=10))
    # chunk-wise delivery (what a TCP source with the getbuffer extension causes): two chunks, split point enumerated
    chunked = [(14, 0, 0), (14, 13, 0), (14, 16, 0), (14, 0, 1), (14, 8, 1)] if tier == "quick" else \
        [(k, sp, af) for k in (1, 12, 14, 17, 24) for sp in (0, 1, 8, 11, 13, 16, 19) for af in (0, 1)]
    for (k, sp, af) in chunked:
        UW = rc.unwind(lmax, k, 2)
        UW["header_ok"] = lmax + 2
        UW["memcpy"] = lmax + 2
        UW["sink_put_chunk"] = 3
        d = {"LMAX": lmax, "PW": 2, "KEXTRA": k, "ALLOC_FAILS": af, "TCP": None, "CHUNKED": None, "SPLIT": sp}
        out.append(mk("c09_chunked_k%d_s%d_tcp_%s" % (k, sp, "busy" if af else "ok"), "C09/c09.c", rc.UNITS, d,
                      unwind=UW, default_unwind=lmax + 2, encoded_units=rc.ENC, fp_removal=True,
                      replay_units=rc.REPLAY_UNITS, object_bits=12, timeout=3000, mem_gb=10))
    for k in ([14] if tier == "quick" else [1, 14, 32]):
        UW = rc.unwind(lmax, k, 2)
        for tcp in (0, 1):
            for af in (0, 1):
                d = {"LMAX": lmax, "PW": 2, "KEXTRA": k, "MODE_SRCERR": None, "ALLOC_FAILS": af}
                if tcp:
                    d["TCP"] = None
                out.append(mk("c09_srcerr_k%d_%s_%s" % (k, "tcp" if tcp else "serial", "busy" if af else "ok"),
                              "C09/c09.c", rc.UNITS, d, unwind=UW, default_unwind=lmax + 2, encoded_units=rc.ENC,
                              fp_removal=True, replay_units=rc.REPLAY_UNITS, object_bits=12, timeout=3000, mem_gb=10))
    # the transmitter refuses every frame (sink error while replying), documented loop continues
    for k in ([14, 24] if tier == "quick" else [14, 24, 32]):
        UW = rc.unwind(lmax, k, 2)
        UW["header_ok"] = lmax + 2
        for tcp in (0, 1):
            if tier == "quick" and tcp != (k == 24):
                continue
            for af in ((0,) if tier == "quick" else (0, 1)):
                d = {"LMAX": lmax, "PW": 2, "KEXTRA": k, "MODE_TXERR": None, "ALLOC_FAILS": af}
                if tcp:
                    d["TCP"] = None
                out.append(mk("c09_txerr_k%d_%s_%s" % (k, "tcp" if tcp else "serial", "busy" if af else "ok"),
                              "C09/c09.c", rc.UNITS, d, unwind=UW, default_unwind=lmax + 2, encoded_units=rc.ENC,
                              fp_removal=True, replay_units=rc.REPLAY_UNITS, object_bits=12, timeout=3000, mem_gb=10))
    return out
