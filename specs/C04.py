# C04: table initialisation accepts exactly the well-formed tables
ENC = ["src/registers/core.c", "src/registers/internal.h"]
INFO = {
    "explanation": "register_init executed symbolically on a fully symbolic table description (area count 0..NAREA, "
                   "bases, sizes 0..AWORDS, flags incl. skip-defaults, write callback present or not, memory or callback "
                   "backing; register count 0..NREG, types, addresses, constraint kinds and 64-bit bounds, 64-bit "
                   "defaults; byte order) with arbitrary prior memory contents. The oracle states the rule groups in the "
                   "property's order. After failure every typed/block/iteration/sanitise operation must answer "
                   "UNINITIALISED; after success defaults read back, other memory words are zero, areas record their "
                   "register runs, and the table is linked exactly as vp_link_direct() (used by C01-C03, C05) builds it.",
    "bounds": {"quick": {"NAREA": 2, "NREG": 3, "AWORDS": 4, "bases/addresses": "0..0x3f"},
               "thorough": {"NAREA": 3, "NREG": 4, "AWORDS": 5, "bases/addresses": "0..0x3f"}},
    "outside_bounds": ["REG_INIT_TOO_MANY_AREAS / TOO_MANY_ENTRIES (65535 / 2^32-1 elements)", "bases near 2^32",
                       "areas without read callback",
                       "tie-breaking between two different faults of one rule group at different indices (both readings accepted)"],
    "stubs": ["memcpy/memset byte loops", "custom area callbacks over a shadow array", "validator callback"],
    "assumptions": ["little-endian host"],
}


def instances(tier):
    if tier == "quick":
        na, nr, aw = 2, 3, 4
    else:
        na, nr, aw = 3, 4, 5
    m = max(na, nr)
    UW = {"memcpy": 10, "memset": 2 * aw + 2, "vp_build": m + 3, "vp_desc_wellformed": m + 2, "ref_area_of": na + 2,
          "ref_area_first": nr + 2, "vp_custom_read": aw + 1, "vp_custom_write": aw + 1,
          "harness": max(aw, m) + 3, "ref_decode": 10, "register_init": m + 2, "reg_count_areas": na + 2,
          "reg_count_entries": nr + 2, "reg_entry_is_in_memory": na + 2, "ra_find_area_by_addr": na + 2,
          "ra_first_entry_of_next": nr + 2}
    D = {"NAREA": na, "NREG": nr, "AWORDS": aw}
    out = [mk("c04_null", "C04/c04.c", [], dict(D, MODE_NULL=None, FIX_NA=na, FIX_NE=nr), unwind=UW, default_unwind=3,
              encoded_units=ENC, fp_removal=True, object_bits=12)]
    out.append(mk("c04_uninit", "C04/c04.c", [], dict(D, MODE_UNINIT=None, FIX_NA=na, FIX_NE=nr),
                  unwind=dict(UW, vp_snap=max(aw, nr) + 2, vp_mem_equal=aw + 2), default_unwind=3, encoded_units=ENC,
                  fp_removal=True, object_bits=12))
    for fa in range(0, na + 1):
        for fe in range(0, nr + 1):
            if fa == 0 and fe not in (0, nr):
                continue  # no areas: the register count is irrelevant (checked with 0 and the maximum)
            out.append(mk("c04_init_a%d_e%d" % (fa, fe), "C04/c04.c", [], dict(D, FIX_NA=fa, FIX_NE=fe), unwind=UW,
                          default_unwind=3, encoded_units=ENC, fp_removal=True, object_bits=12, timeout=3000))
    if tier == "quick":
        # three areas are needed for "the third area is judged against a stale predecessor" (seed C04-F): cheap as
        # long as there are few registers
        na3 = 3
        UW3 = dict(UW, vp_build=na3 + 3, vp_desc_wellformed=na3 + 2, ref_area_of=na3 + 2, harness=max(aw, na3) + 3,
                   register_init=na3 + 2, reg_count_areas=na3 + 2, reg_entry_is_in_memory=na3 + 2,
                   ra_find_area_by_addr=na3 + 2)
        for fe in (0, 1):
            out.append(mk("c04_init_a3_e%d" % fe, "C04/c04.c", [], {"NAREA": 3, "NREG": 3, "AWORDS": aw, "FIX_NA": 3, "FIX_NE": fe},
                          unwind=UW3, default_unwind=3, encoded_units=ENC, fp_removal=True, object_bits=12, timeout=3000))
    return out
