# C16: the checksum is CRC-16/ARC for every input
U = ["src/crc-16-arc.c"]

INFO = {
    "explanation": "ufw_crc16_arc / ufw_buffer_crc16_arc / ufw_crc16_arc_u16 / "
                   "ufw_buffer_crc16_arc_u16 from src/crc-16-arc.c executed symbolically by CBMC and "
                   "compared with a table-free bit-serial CRC-16/ARC. The single-step instance covers all "
                   "2^24 (state, octet) pairs and thereby pins all 256 table entries; since the buffer loop "
                   "applies one step per octet, the step result extends to buffers of any length by induction "
                   "on the loop (the buffer instances check that loop for the stated lengths).",
    "bounds": {
        "quick": {"step": "state 16 bit x octet 8 bit (complete)", "buffer_len": "0..4 octets, any split, any init",
                  "words_len": "0..4 words"},
        "thorough": {"step": "complete", "buffer_len": "0..10 octets", "words_len": "0..8 words"},
    },
    "outside_bounds": ["buffers longer than the stated length (covered only by the step+loop induction argument)",
                       "big-endian hosts as such (the SYSTEM_ENDIANNESS_BIG branch of ufw_crc16_arc_u16 is compiled and checked against the big-endian image in its own instance, on the little-endian model)",
                       "CHAR_BIT != 8"],
    "stubs": [],
    "assumptions": ["little-endian 8-bit-byte host configuration (the one the repository builds and tests)"],
}


def instances(tier):
    L = 4 if tier == "quick" else 10
    W = 4 if tier == "quick" else 8
    return [
        mk("c16_step", "C16/c16.c", U, {"MODE_STEP": None, "LEN": 1},
           unwind={"ufw_crc16_arc": 3, "ref_step": 9}, default_unwind=10, no_models=True),
        mk("c16_buffer", "C16/c16.c", U, {"MODE_BUFFER": None, "LEN": L},
           unwind={"ufw_crc16_arc": L + 2, "ref_step": 9, "ref_crc": L + 2}, default_unwind=10, no_models=True),
        mk("c16_words", "C16/c16.c", U, {"MODE_WORDS": None, "LEN": W},
           unwind={"ufw_crc16_arc": 2 * W + 2, "ufw_crc16_arc_u16": W + 2, "ref_step": 9, "ref_crc": 2 * W + 2,
                   "harness": W + 2}, default_unwind=10, no_models=True),
        # the big-endian branch of the word variant (the build under test is little-endian; the branch is compiled
        # with the other macro so that it is not dead code for the check)
        mk("c16_words_bigendian_branch", "C16/c16.c", U, {"MODE_WORDS_BE": None, "LEN": W},
           cflags=["-USYSTEM_ENDIANNESS_LITTLE", "-DSYSTEM_ENDIANNESS_BIG"],
           unwind={"ufw_crc16_arc": 2 * W + 2, "ufw_crc16_arc_u16": W + 2, "ref_step": 9, "ref_crc": 2 * W + 2,
                   "harness": W + 2}, default_unwind=10, no_models=True),
    ]
