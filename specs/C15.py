# C15: endian codecs place and fetch every value byte-exactly
#
# The function table {16..64 step 8} x {n,b,l} x {u,s,f32/f64} + swaps + range
# predicates is built here (table()); the width axis drives the instances (one
# MODE_CODEC instance per width), kind x order is expanded by the preprocessor
# in harness/C15/c15.c.  The header's function list is compared with the table
# on every run: a function that disappeared (or a new bf_* function the table
# does not know) makes every instance inconclusive (#error in the harness).
import os
import re

HDR = "include/ufw/binary-format.h"
WIDTHS = [16, 24, 32, 40, 48, 56, 64]
FLOAT_WIDTHS = [32, 64]
PARTIAL_WIDTHS = [24, 40, 48, 56]


def table():
    names = set()
    for w in WIDTHS:
        names.add("bf_swap%d" % w)
        kinds = "usf" if w in FLOAT_WIDTHS else "us"
        for k in kinds:
            for o in "nbl":
                names.add("bf_set_%s%d%s" % (k, w, o))
                names.add("bf_ref_%s%d%s" % (k, w, o))
        if w in PARTIAL_WIDTHS:
            names.add("bf_inrange_u%d" % w)
            names.add("bf_inrange_s%d" % w)
    return names


def header_functions():
    repo = os.environ.get("VP_REPO", "/repo")
    try:
        txt = open(os.path.join(repo, HDR)).read()
    except OSError:
        return None
    return set(re.findall(r"^(bf_[A-Za-z0-9_]+)\s*\(", txt, re.M))


def table_mismatch():
    have = header_functions()
    if have is None:
        return "cannot read " + HDR
    want = table()
    if have == want:
        return None
    return "missing from header: %s; not in table: %s" % (
        ", ".join(sorted(want - have)) or "-", ", ".join(sorted(have - want)) or "-")


INFO = {
    "explanation": "All 111 functions of include/ufw/binary-format.h (header-only, compiled with the real "
                   "build's preprocessor configuration) are executed symbolically. Per width one instance "
                   "runs, for each of {u,s,(f)} x {n,b,l}: bf_set_* on a 32-octet array with arbitrary "
                   "contents at array+8+off (every off 0..7, case-split so each call sees a constant pointer) with a fully symbolic argument (all 2^16/2^32/"
                   "2^64 argument values incl. bits above the width and every float bit pattern), asserting "
                   "the returned pointer, every field octet against the lane specification (big: most "
                   "significant first, little: least significant first, native = host order) and every other "
                   "octet of the array unchanged; bf_ref_* of the stored field (round trip: zero-/sign-"
                   "extension of the low w bits, floats bit-identical) and bf_ref_* of arbitrary memory "
                   "against the composed lanes (memory unchanged). One instance decides bf_swapNN (lane "
                   "reversal on the low NN/8 octets for any argument, involution) and bf_inrange_* "
                   "(accepted <=> low NN bits read back as two's complement / zero-extended reproduce the "
                   "value) for all 2^64 arguments. One instance lays out a 12-field record through the returned "
                   "end pointers and compares the whole image and the decoded fields.",
    "bounds": {
        "quick": {"value": "full argument width (complete)", "alignment_offset": "0..7 (complete)",
                  "memory": "32-octet array, arbitrary contents; record: 12 fields / 57 octets"},
        "thorough": {"value": "complete", "alignment_offset": "0..7", "memory": "as quick (the check is already "
                     "complete in its parameters); thorough adds all codec/record instances for the portable "
                     "(non-builtin) byte-swap branch and re-decides the built configuration with minisat2"},
    },
    "outside_bounds": ["big-endian hosts and 16-bit-byte hosts (SYSTEM_ENDIANNESS_BIG / UFW_BITS_PER_BYTE == 16 "
                       "branches are not compiled; native order is checked as little endian)",
                       "quick tier: codecs on top of the non-builtin branch of bf_swap16/32/64 (the swap functions "
                       "themselves are checked in both branches in both tiers)",
                       "stray writes further than 8 octets before / 9 octets behind the field are caught only "
                       "as array-bounds violations, not as frame violations",
                       "value of the upper bits of bf_swap24/40/48/56 results for arguments wider than the "
                       "width (property is silent)"],
    "stubs": [],
    "assumptions": ["little-endian 8-bit-byte host configuration (the one the repository builds and tests)",
                    "float/double arguments and results are carried as bit patterns through a union in the "
                    "harness (CBMC and gcc/x86-64 SSE both pass them bit-identically)"],
}


def instances(tier):
    bad = table_mismatch()
    extra = {}
    desc = ""
    if bad:
        print("[C15] function table mismatch: " + bad, flush=True)
        extra = {"C15_TABLE_MISMATCH": None}
        desc = "function table mismatch: " + bad
    enc = [HDR, "include/ufw/bit-operations.h"]
    common = dict(default_unwind=MEMLOOP, no_models=True, object_bits=12, encoded_units=enc, desc=desc, timeout=600)
    out = []

    def family(sfx, backend, cflags, only_swap=False):
        kw = dict(common, backend=backend, cflags=cflags)
        if not only_swap:
            for w in WIDTHS:
                out.append(mk("c15_codec_w%d%s" % (w, sfx), "C15/c15.c", [],
                              dict(extra, MODE_CODEC=None, C15_W=w), **kw))
            out.append(mk("c15_record" + sfx, "C15/c15.c", [], dict(extra, MODE_RECORD=None),
                          **dict(kw, default_unwind=RECLOOP)))
        out.append(mk("c15_swap_range" + sfx, "C15/c15.c", [], dict(extra, MODE_SWAPRANGE=None), **kw))

    # the configuration the repository builds (compiler byte-swap builtins)
    family("", "cadical", [])
    # the portable shift-and-mask branch of bf_swap16/32/64 (used by every b/l codec on this host)
    family("_portable", "cadical", PORTABLE, only_swap=(tier == "quick"))
    if tier != "quick":
        # same obligations decided by a second SAT back end
        family("_minisat2", "minisat2", [])
    return out


PORTABLE = ["-UUFW_USE_BUILTIN_SWAP"]
# loop bounds (iterations + 1): array sweeps in the harness only; the library code is loop-free
MEMLOOP = 8 + 7 + 8 + 9 + 1 + 1
RECLOOP = 8 + 7 + 57 + 9 + 1 + 1
