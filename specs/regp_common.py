# shared pieces of the C06..C09 specs
# CBMC links the bit-serial CRC specification (harness/regp/crc_spec.c, see there) instead of the table-driven
# src/crc-16-arc.c; the replay build links the real file.
UNITS = ["src/endpoints/continuable-sink.c", "src/byte-buffer.c", "src/allocator.c",
         "src/endpoints/core.c", "src/endpoints/trivial.c", "verif:harness/regp/crc_spec.c"]
REPLAY_UNITS = ["src/endpoints/continuable-sink.c", "src/byte-buffer.c", "src/allocator.c",
                "src/endpoints/core.c", "src/endpoints/trivial.c", "src/crc-16-arc.c"]
ENC = ["src/register-protocol.c", "src/endpoints/continuable-sink.c", "src/byte-buffer.c", "src/allocator.c",
       "src/endpoints/core.c", "src/endpoints/trivial.c"]


def unwind(lmax, kextra, pw):
    txmax = 16 + kextra
    blk = 64 + kextra + 8
    big = max(lmax, txmax, blk) + 2
    return {"memcpy": 18, "memset": 3, "memmove": 18,
            "ufw_crc16_arc": max(lmax, txmax) + 2, "ufw_crc16_arc_u16": max(lmax, txmax) // 2 + 2,
            "vp_alloc": 3, "vp_regp_setup": blk + 96, "vp_backend": kextra + 2, "vp_deliver": lmax + 2, "vp_record_chunks": txmax + 2,
            "ref_encode": max(lmax, txmax) + 2, "ref_encode_header": 18, "ref_classify": max(lmax, txmax) + 2, "tx_is": max(lmax, txmax) + 2,
            "popcount8": 9, "harness": max(lmax, txmax) + 3}
