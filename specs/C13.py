# C13: length-prefix framing carries exactly the designated octets
U = ["src/length-prefix.c", "src/variable-length-integer.c", "src/byte-buffer.c",
     "src/endpoints/core.c"]
UB = U + ["src/endpoints/buffer.c"]

INFO = {
    "explanation": "",
    "bounds": {},
    "outside_bounds": [],
    "stubs": [],
    "assumptions": [],
}

RANGE_UNWIND = {"c13_ref_prefix": 11, "varint_encode": 11, "varint_from_source": 11,
                "rec_sink": 11, "vsrc_read": 11, "which_region": 7, "harness": 5,
                "check_prefix_buffer": 11, "expect_sink": 5,
                "source_get_chunk": 3, "sink_put_chunk": 3, "flenp_chunks_to_sink": 5,
                "flenp_chunks_use": 5}


def instances(tier):
    out = []
    out.append(mk("c13_range", "C13/c13_range.c", U, {}, unwind=RANGE_UNWIND, default_unwind=3,
                  fp_removal=True))
    return out
