# C13: length-prefix framing carries exactly the designated octets
U = ["src/length-prefix.c", "src/variable-length-integer.c", "src/byte-buffer.c",
     "src/endpoints/core.c"]
UB = U + ["src/endpoints/buffer.c"]

INFO = {
    "explanation": "Three harness families over the real src/length-prefix.c (+ variable-length-integer.c, "
                   "byte-buffer.c, endpoints/core.c, endpoints/buffer.c), oracle = reference framing written from the "
                   "property text (c13_ref.h: LEB128 / 1 octet / 16,32-bit LE,BE; maxima SSIZE_MAX,255,65535,2^32-1). "
                   "(1) c13_range_*: one instance per entry point (flenp_memory_encode, flenp_buffer_encode(_n), "
                   "flenp_chunks_use, flenp_memory_to_sink, flenp_buffer_to_sink(_n), flenp_chunks_to_sink, "
                   "flenp_memory_from_source, flenp_buffer_from_source), kind symbolic, lengths / ByteBuffer fields / "
                   "chunk fields / destination capacity symbolic over (almost) the whole 64-bit range. No payload octet "
                   "is moved: the sink compares every put against the expected stream (prefix octets, then references "
                   "into the payload objects: object, start, length), the source serves the prefix and records where "
                   "the payload is to be deposited. Decides: prefix encoding for every length, refusal beyond the "
                   "kind's maximum before anything is emitted, reported total, which octets are designated (pointer "
                   "identity), offset advance of the _n variants, decode length / destination address / -ENOMEM / no "
                   "deposit past the destination. "
                   "(2) c13_enc_*: the four *_to_sink encoders write into the library's buffer sink (and an octet "
                   "sink) of symbolic capacity and fill; payload <= NP octets with symbolic contents, symbolic "
                   "ByteBuffer state, symbolic chunk-list shape (0..3 chunks, active index, empty chunks): sink "
                   "contents == prefix || designated octets, total, nothing else written, sources unchanged. "
                   "(3) c13_dec_*: two reference frames back to back decoded by flenp_memory_from_source / "
                   "flenp_buffer_from_source / flenp_decode_source_to_sink into real memory with canaries, capacity "
                   "symbolic around the length; source = library buffer source (full reads) or a scripted source that "
                   "serves 1..3 octets per read as chosen by the solver for every read.",
    "bounds": {
        "quick": {"range": "lengths and buffer fields full 64 bit (offsets entering pointer arithmetic <= 2^33, "
                           "single chunk <= 2^62); chunk list shape 3 chunks / active 0",
                  "enc": "NP=4: buffer memory 6, 3 chunks x 2 octets, sink capacity 1..11, 0..1 octets pre-filled; "
                         "octet sink only for the from-memory encoder",
                  "dec": "payloads 1..NP, NP = 4 (memory, buffer; full reads), 2 (sink; full reads), 2 (memory, "
                         "buffer; fragmented), 1 (sink; fragmented); capacities 0..2NP+2; 0..2 octets pre-filled"},
        "thorough": {"range": "as quick, chunk list shapes (3,0) (3,1) (3,2) (2,0) (1,0)",
                     "enc": "NP=8: buffer memory 10, 3 chunks x 4 octets, sink capacity 1..17; octet sink for all "
                            "four encoders",
                     "dec": "NP = 8 (memory, buffer; full reads), 6 (sink; full reads), 6 / 5 / 4 (memory / buffer "
                            "/ sink; fragmented)"},
    },
    "outside_bounds": [
        "moving payloads longer than NP octets (the copy loops are byte_buffer_add / memcpy / the endpoint loops, "
        "see C17/C18); the 255/65535-octet payloads are covered at the pointer level only (range instances)",
        "chunk lists with more than 3 chunks; symbolic list shape only for payloads <= NP",
        "payload length 0 (the property starts at 1): executed for memory safety, no functional assertion",
        "sources or sinks that fail, return 0, -EINTR or -EAGAIN (C17)",
        "flenp_decode_source_to_sink with getbuffer-extension endpoints (only the octet-wise path is exercised)",
        "frames whose prefix declares more than the kind's encoder maximum (varint > SSIZE_MAX) on the decode side",
        "32-bit size_t / big-endian hosts",
    ],
    "stubs": [
        "memcpy/memmove/memset: exact byte loops (harness/lib/libc_models.c)",
        "range instances: comparing chunk sink (accepts every put completely), virtual source (serves the reference "
        "prefix, then accepts payload deposits by reference); payload objects are virtual (16-octet objects, "
        "never dereferenced by the framing code)",
        "enc instances: octet sink writing into the wire array (-ENOMEM when full)",
        "dec instances: scripted fragmenting chunk source (1..3 octets per read, -ENODATA at the end)",
    ],
    "assumptions": [
        "ByteBuffer arguments satisfy offset <= used <= size; chunks before `active` are fully consumed",
        "_n variants are called with n <= unread octets",
        "the sum of the unread octets of a chunk list does not wrap size_t (each chunk <= 2^62)",
        "range instances: the framing code hands payload octets to the endpoint by reference and does not read or "
        "write them itself (true of any zero-copy length-prefix framer; a framer that staged the payload would show "
        "up as an out-of-bounds access, not as a silent pass)",
        "range instances: destination memory capacity <= SSIZE_MAX",
    ],
}

RANGE_UNWIND = {"c13_ref_prefix": 11, "varint_encode": 11, "varint_from_source": 11,
                "rec_sink": 11, "vsrc_read": 11, "which_region": 7, "harness": 7, "run_kind": 5,
                "check_prefix_buffer": 11, "expect_sink": 5, "memset": 200,
                "source_get_chunk": 2, "sink_put_chunk": 2, "flenp_chunks_to_sink": 5,
                "flenp_chunks_use": 5}
EPS = ["memory_encode", "buffer_encode", "buffer_encode_n", "chunks_use", "memory_to_sink",
       "buffer_to_sink", "buffer_to_sink_n", "chunks_to_sink", "memory_from_source",
       "buffer_from_source"]


ENC_EPS = ["memory", "buffer", "buffer_n", "chunks"]


def enc_unwind(np_, ep):
    sz = np_ + 2
    cs = (sz + 2) // 3
    maxt = 3 * cs
    wire = 2 + 4 + maxt + 1 + 2
    # memcpy / sink_adapt: longest legal put is the longest payload piece or the prefix
    piece = max(cs if ep == "chunks" else sz, 4)
    return {"memcpy": piece + 1, "harness": wire + 2, "c13_ref_prefix": 11, "varint_encode": 11,
            "sink_put_chunk": 2, "sink_adapt": piece + 1, "flenp_chunks_to_sink": 5}


DSTS = ["memory", "buffer", "sink"]
SRCS = ["fullreads", "fragmented"]


def dec_unwind(np_, src):
    dsz = 2 * np_ + 2
    wmax = 2 * (4 + np_)
    return {"harness": max(dsz + 4, wmax + 2) + 2, "c13_ref_prefix": 11, "frag_read": 4,
            "memcpy": max(np_, 4) + 1,
            # lengths are < 128 here: the varint prefix is one octet
            "varint_from_source": 2,
            "source_get_chunk": 2 if src == 0 else max(np_, 4) + 1,
            "sink_put_chunk": 2, "sts_n": np_ + 2}


def instances(tier):
    out = []
    np_ = 4 if tier == "quick" else 8
    # decoders: payload bound per (destination, source); the fragmenting source and the
    # octet-wise source-to-sink plumbing are the expensive ones
    if tier == "quick":
        dec_np = {("memory", 0): 4, ("buffer", 0): 4, ("sink", 0): 2,
                  ("memory", 1): 2, ("buffer", 1): 2, ("sink", 1): 1}
    else:
        dec_np = {("memory", 0): 8, ("buffer", 0): 8, ("sink", 0): 6,
                  ("memory", 1): 6, ("buffer", 1): 5, ("sink", 1): 4}
    for d, dn in enumerate(DSTS):
        for sr, sn in enumerate(SRCS):
            n = dec_np[(dn, sr)]
            out.append(mk("c13_dec_%s_%s_np%d" % (dn, sn, n), "C13/c13_dec.c", UB,
                          {"DST": d, "SRC": sr, "NP": n}, unwind=dec_unwind(n, sr),
                          default_unwind=3, fp_removal=True, timeout=1700))
    for i, ep in enumerate(ENC_EPS):
        out.append(mk("c13_enc_%s_np%d" % (ep, np_), "C13/c13_enc.c", UB, {"EP": i, "NP": np_},
                      unwind=enc_unwind(np_, ep), default_unwind=3, fp_removal=True))
        if tier == "quick" and ep != "memory":
            continue  # octet sink x other entry points: thorough only
        out.append(mk("c13_enc_%s_octetsink_np%d" % (ep, np_), "C13/c13_enc.c", UB,
                      {"EP": i, "NP": np_, "SINK_OCTET": None},
                      unwind=enc_unwind(np_, ep), default_unwind=3, fp_removal=True))
    for i, ep in enumerate(EPS):
        shapes = [(3, 0)]
        if ep.startswith("chunks") and tier != "quick":
            shapes = [(3, 0), (3, 1), (3, 2), (2, 0), (1, 0)]
        for (nc, act) in shapes:
            name = "c13_range_%s" % ep
            if ep.startswith("chunks"):
                name += "_%dchunks_active%d" % (nc, act)
            out.append(mk(name, "C13/c13_range.c", U, {"EP": i, "NCHUNKS": nc, "ACTIVE": act},
                          unwind=RANGE_UNWIND, default_unwind=3, fp_removal=True, timeout=1700))
    return out
