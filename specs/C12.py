# C12: SLIP framing is transparent, bounded and self-resynchronising
SCRIPTED = ["src/rfc1055.c", "src/endpoints/core.c"]
REAL = SCRIPTED + ["src/endpoints/buffer.c", "src/byte-buffer.c"]
# endpoints/core.c references byte_buffer_rest/_rewind (sts_* plumbing, not
# reached from rfc1055.c): needed by the linker of the replay build only
RU = SCRIPTED + ["src/byte-buffer.c"]

INFO = {
    "explanation": "",
    "bounds": {},
    "outside_bounds": [],
    "stubs": [],
    "assumptions": [],
}

# loops of the endpoint layer: sink_put_chunk runs once per escape pair,
# sink_adapt twice (two octets), the chunk stub copies <= 2 octets
EP = {"sink_put_chunk": 2, "sink_adapt": 3, "ssink_put_chunk": 3,
      "source_adapt": 2, "source_get_chunk": 2, "memcpy": 3, "memset": 3}


def codec(name, np_, nf, kind, sof):
    wc = 2 * np_ + 2
    big = nf * wc + 2 * 2 + 2
    d = {"NP": np_, "NF": nf, "SOF": sof}
    if kind == "real":
        d["REAL_BUF"] = None
    elif kind == "octet":
        d["OCTET_SINK"] = None
    uw = dict(EP)
    uw.update({"harness": big, "ref_frame": np_ + 2,
               "rfc1055_encode": np_ + 2, "rfc1055_decode": wc + 1})
    return mk(name, "C12/c12_codec.c", REAL if kind == "real" else SCRIPTED, d,
              unwind=uw, default_unwind=3, fp_removal=True,
              replay_units=REAL if kind == "real" else RU)


def step(name, k, sof):
    uw = dict(EP)
    uw.update({"harness": k + 2, "ref_call": k + 2, "judge": k + 2, "rfc1055_decode": k + 2})
    return mk(name, "C12/c12_step.c", SCRIPTED, {"K": k, "SOF": sof},
              unwind=uw, default_unwind=3, fp_removal=True, replay_units=RU)


def resync(name, ng, nf, npr, sof):
    l = ng + 1 + nf * (2 * npr + 2)
    uw = dict(EP)
    uw.update({"harness": l + 2, "ref_frame": npr + 2, "rfc1055_decode": l + 2})
    return mk(name, "C12/c12_resync.c", SCRIPTED,
              {"NG": ng, "NF": nf, "NPR": npr, "SOF": sof},
              unwind=uw, default_unwind=3, fp_removal=True, replay_units=RU,
              object_bits=12)


def errors(name, np_, kind):
    wc = 2 * np_ + 2
    d = {"NP": np_}
    if kind == "octet":
        d["OCTET_SINK"] = None
    uw = dict(EP)
    uw.update({"harness": wc + 2, "ref_frame": np_ + 2, "rfc1055_encode": np_ + 2,
               "rfc1055_decode": wc + 1})
    return mk(name, "C12/c12_errors.c", SCRIPTED, d, unwind=uw,
              default_unwind=3, fp_removal=True, replay_units=RU)


def instances(tier):
    q = tier == "quick"
    out = []
    for sof in (0, 1):
        m = "sof" if sof else "classic"
        out.append(codec("c12_roundtrip_buf_%s" % m, 3 if q else 5, 1, "real", sof))
        out.append(codec("c12_roundtrip_%s" % m, 4 if q else 8, 1, "chunk", sof))
        out.append(codec("c12_concat_%s" % m, 2 if q else 3, 2, "octet", sof))
        out.append(step("c12_step_%s" % m, 4 if q else 6, sof))
        out.append(resync("c12_resync_%s" % m, 2 if q else 5, 2 if q else 3, 1 if q else 2, sof))
    out.append(errors("c12_errors", 3 if q else 6, "octet"))
    return out
