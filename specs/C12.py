# C12: SLIP framing is transparent, bounded and self-resynchronising
SCRIPTED = ["src/rfc1055.c", "src/endpoints/core.c"]
REAL = SCRIPTED + ["src/endpoints/buffer.c", "src/byte-buffer.c"]
# endpoints/core.c references byte_buffer_rest/_rewind (sts_* plumbing, not
# reached from rfc1055.c): needed by the linker of the replay build only
RU = SCRIPTED + ["src/byte-buffer.c"]

INFO = {
    "explanation":
        "src/rfc1055.c (with the real Source/Sink dispatch of src/endpoints/core.c) is executed symbolically "
        "by CBMC; all 256 octet values are symbolic everywhere. "
        "roundtrip/concat: rfc1055_encode of 1 or 2 arbitrary payloads into one sink of exactly the summed "
        "worst-case size (2n+1, 2n+2 with start-of-frame; the RFC1055_WORST_CASE macro is asserted to be that), "
        "image compared octet by octet with an RFC 1055 reference encoder (so END occurs only at delimiter "
        "positions), then rfc1055_decode once per frame into a sink of exactly n octets: returns 1, delivers the "
        "payload, consumes exactly that frame. One pair of instances runs through the library's ByteBuffer "
        "endpoints (source_from_buffer/sink_to_buffer + byte-buffer.c), the others through scripted drivers. "
        "step: ONE rfc1055_decode call from an arbitrary reachable decoder state on an arbitrary octet string "
        "followed by an arbitrary source error, sink failing after an arbitrary count, compared with a reference "
        "SLIP automaton (return value, octets consumed, octets delivered, next state where the property determines "
        "it); the decoder has no memory besides ctx->state and each loop iteration consumes 1-2 octets, so the "
        "K-octet strings from every state cover every transition followed by every transition and the result "
        "extends to streams of any length (this last step is argued, not machine-checked). "
        "resync: arbitrary reachable start state (stands for any earlier history) + arbitrary noise + [classic: "
        "END] + well-formed frames, decode called until the stream is exhausted; classic: deliveries after the "
        "delimiter are exactly the frames; start-of-frame: deliveries after the end of the first non-empty frame "
        "are exactly the later frames. errors: source/sink failure with an arbitrary error value at every position "
        "of encode and decode is returned unchanged.",
    "bounds": {
        "quick": {"roundtrip_buf (real ByteBuffer endpoints)": "payload 0..4, both modes",
                  "roundtrip (scripted)": "payload 0..4", "concat": "2 frames x payload 0..2 (octet sink: "
                  "escape pairs via sink_put_chunk/sink_adapt)",
                  "step": "any reachable state, 0..5 arbitrary octets, any error values, sink capacity 0..5",
                  "resync": "noise 0..2 octets, 2 frames x payload 0..2, any reachable start state",
                  "errors": "payload 0..3, failure at every position, any negative error value"},
        "thorough": {"roundtrip_buf": "payload 0..8", "roundtrip": "payload 0..9",
                     "concat": "2 frames x payload 0..4", "step": "0..9 arbitrary octets",
                     "resync": "noise 0..5, 3 frames x payload 0..2; and noise 0..9, 2 frames x payload 0..1",
                     "errors": "payload 0..8"},
    },
    "outside_bounds": [
        "payloads/streams longer than the stated lengths, in particular the 1 KiB random payloads of the "
        "quantifier (covered only by the step + loop-structure induction argument)",
        "drivers that return 0 or a short count (retry semantics of the endpoint layer: C17); chunk sinks that "
        "accept part of an escape pair",
        "resuming a decode after a source error that fell between ESC and its second octet (the ESC is lost: "
        "the property is silent about resumption; observed, not judged)",
        "context states/flags not reachable through rfc1055_context_init + rfc1055_decode (classic mode in "
        "SEARCH_FOR_START, flag bits other than RFC1055_WITH_SOF, state values outside the enum)",
    ],
    "stubs": [
        "scripted octet source (array + position, then a fixed error for ever)",
        "scripted sink, octet or all-or-nothing chunk driver (array + count, fails once `cap` octets are in)",
        "memcpy/memset byte loops (only reached through byte-buffer.c in the roundtrip_buf instances)",
    ],
    "assumptions": [
        "injected error values are negative ints other than -EINTR/-EAGAIN (the endpoint contract defines these "
        "two as retry signals) and, for the encoder's payload source, other than -ENODATA (end of data)",
        "the source delivers the stream without transient errors (each decode call runs until END, an invalid "
        "sequence or the end of the stream)",
        "decoder state values restricted to those reachable in the respective mode",
    ],
}


# loops of the endpoint layer: sink_put_chunk runs once per escape pair,
# sink_adapt twice (two octets), the chunk stub copies <= 2 octets
EP = {"sink_put_chunk": 2, "sink_adapt": 3, "ssink_put_chunk": 3,
      "source_adapt": 2, "source_get_chunk": 2, "memcpy": 3, "memset": 3}


def codec(name, np_, nf, kind, sof):
    wc = 2 * np_ + 2
    big = nf * wc + 2 * 2 + 2
    d = {"NP": np_, "NF": nf, "SOF": sof}
    if kind == "real":
        d["REAL_BUF"] = None
    elif kind == "octet":
        d["OCTET_SINK"] = None
    uw = dict(EP)
    uw.update({"harness": big, "ref_frame": np_ + 2,
               # encode: n octets + the failing get; decode of a well-formed
               # frame: [start END] + n units + END, one loop iteration each
               "rfc1055_encode": np_ + 2, "rfc1055_decode": np_ + 3})
    return mk(name, "C12/c12_codec.c", REAL if kind == "real" else SCRIPTED, d,
              unwind=uw, default_unwind=3, fp_removal=True,
              replay_units=REAL if kind == "real" else RU)


def step(name, k, sof):
    uw = dict(EP)
    uw.update({"harness": k + 2, "ref_call": k + 2, "judge": k + 2, "rfc1055_decode": k + 2})
    return mk(name, "C12/c12_step.c", SCRIPTED, {"K": k, "SOF": sof},
              unwind=uw, default_unwind=3, fp_removal=True, replay_units=RU)


def resync(name, ng, nf, npr, sof):
    l = ng + 1 + nf * (2 * npr + 2)
    uw = dict(EP)
    uw.update({"harness": l + 2, "ref_frame": npr + 2, "rfc1055_decode": l + 2})
    return mk(name, "C12/c12_resync.c", SCRIPTED,
              {"NG": ng, "NF": nf, "NPR": npr, "SOF": sof},
              unwind=uw, default_unwind=3, fp_removal=True, replay_units=RU,
              object_bits=12)


def errors(name, np_, kind):
    wc = 2 * np_ + 2
    d = {"NP": np_}
    if kind == "octet":
        d["OCTET_SINK"] = None
    uw = dict(EP)
    uw.update({"harness": wc + 2, "ref_frame": np_ + 2, "rfc1055_encode": np_ + 2,
               "rfc1055_decode": np_ + 3})
    return mk(name, "C12/c12_errors.c", SCRIPTED, d, unwind=uw,
              default_unwind=3, fp_removal=True, replay_units=RU)


def instances(tier):
    q = tier == "quick"
    out = []
    for sof in (0, 1):
        m = "sof" if sof else "classic"
        out.append(codec("c12_roundtrip_buf_%s" % m, 4 if q else 8, 1, "real", sof))
        out.append(codec("c12_roundtrip_%s" % m, 4 if q else 9, 1, "chunk", sof))
        out.append(codec("c12_concat_%s" % m, 2 if q else 4, 2, "octet", sof))
        out.append(step("c12_step_%s" % m, 5 if q else 9, sof))
        out.append(resync("c12_resync_%s" % m, 2 if q else 5, 2 if q else 3, 2, sof))
        if not q:
            # long noise, short frames
            out.append(resync("c12_resync_longnoise_%s" % m, 9, 2, 1, sof))
    out.append(errors("c12_errors", 3 if q else 8, "octet"))
    return out
