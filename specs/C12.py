# C12: SLIP framing is transparent, bounded and self-resynchronising
SCRIPTED = ["src/rfc1055.c", "src/endpoints/core.c"]
REAL = SCRIPTED + ["src/endpoints/buffer.c", "src/byte-buffer.c"]

INFO = {
    "explanation": "",
    "bounds": {},
    "outside_bounds": [],
    "stubs": [],
    "assumptions": [],
}


def codec(name, np_, nf, real):
    wc = 2 * np_ + 2
    enc = nf * wc
    big = enc + 2 * 2 + 2
    d = {"NP": np_, "NF": nf}
    if real:
        d["REAL_BUF"] = None
    return mk(name, "C12/c12_codec.c", REAL if real else SCRIPTED, d,
              unwind={"harness": big, "memcpy": big, "memset": big,
                      "ref_frame": np_ + 2,
                      "rfc1055_encode": np_ + 2, "rfc1055_decode": wc + 2,
                      "sink_put_chunk": 3, "sink_adapt": 4, "source_adapt": 3,
                      "source_get_chunk": 3},
              default_unwind=3, fp_removal=True)


def instances(tier):
    q = tier == "quick"
    out = [
        codec("c12_roundtrip_buf_np%d" % (3 if q else 5), 3 if q else 5, 1, True),
        codec("c12_concat_np%d" % (2 if q else 3), 2 if q else 3, 2, False),
    ]
    return out
