# C01: typed register set/get is lossless and constraint-enforcing
ENC = ["src/registers/core.c", "include/ufw/binary-format.h"]

INFO = {
    "explanation": "register_init, register_set, register_set_unsafe, register_get (src/registers/core.c, "
                   "#include'd into the harness TU) executed symbolically over a symbolic table description "
                   "(types, addresses, constraint kinds and 64-bit bounds, defaults, byte order, memory- or "
                   "callback-backed areas, write callback present or not) accepted by the real register_init, "
                   "arbitrary memory contents, arbitrary handle (full 32 bit), arbitrary value type and all 64 "
                   "value bits. Oracle: octet-level reference (regs_common.h).",
    "bounds": {"quick": {"NAREA": 2, "NREG": 2, "AWORDS": 6, "value": "all 64 bits", "handle": "all 32 bits"},
               "thorough": {"NAREA": 2, "NREG": 3, "AWORDS": 8, "value": "all 64 bits", "handle": "all 32 bits"}},
    "outside_bounds": ["tables with more than NREG registers / NAREA areas", "areas without a read callback",
                       "addresses above 0x7fffff00 (2^32 wrap-around)", "REGISTER_TABLE_WITH_* build options",
                       "what register_set_unsafe stores for a value of the wrong type (the property leaves it open; "
                       "only the frame condition is checked there)"],
    "stubs": ["memcpy/memset: byte loops", "custom area callbacks and validator callback: harness functions over a "
              "shadow array / (bits & mask) == pattern with symbolic mask and pattern"],
    "assumptions": ["little-endian host", "table description accepted by the real register_init"],
}


def instances(tier):
    nreg = 2 if tier == "quick" else 3
    aw = 6 if tier == "quick" else 8
    D = {"NAREA": 2, "NREG": nreg, "AWORDS": aw}
    UW = {"memcpy": 2 * 2 * aw + 2, "memset": 2 * aw + 2, "register_init": max(nreg, 2) + 2,
          "reg_count_areas": 4, "reg_count_entries": nreg + 2, "reg_entry_is_in_memory": 4,
          "ra_find_area_by_addr": 4, "ra_first_entry_of_next": nreg + 2, "vp_build": max(nreg, 2) + 3,
          "vp_desc_wellformed": max(nreg, 2) + 2, "family": max(nreg, 2) + 2, "ref_area_of": 4,
          "vp_custom_read": 6, "vp_custom_write": 6, "vp_snap": max(aw, nreg) + 2, "vp_mem_equal": aw + 2,
          "harness": aw + 3, "ref_layout_ok": max(nreg, 2) + 2, "vp_link_direct": max(nreg, 2) + 2, "ref_area_first": nreg + 2, "ref_decode": 10, "ref_entry_octets": 10}
    out = []
    names = ["u16", "u32", "u64", "s16", "s32", "s64", "f32", "f64"]
    for ty in range(8):
        for mode in ("SET", "GET"):
            d = dict(D)
            d["MODE_" + mode] = None
            d["TTYPE"] = ty
            out.append(mk("c01_%s_%s" % (mode.lower(), names[ty]), "C01/c01.c", [], d, unwind=UW, default_unwind=3,
                          encoded_units=ENC, fp_removal=True, timeout=1500))
    return out
