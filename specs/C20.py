# C20: the s-expression reader inverts printing and fails cleanly on anything else
U = ["src/compat/strlcpy.c"]                      # linked as its own unit
ENC = ["src/sx.c", "src/compat/strlcpy.c"]        # sx.c is #included by the harness TU (allocator renamed)
CF = ["-D__NO_CTYPE"]

INFO = {
    "explanation": "TODO",
    "bounds": {},
    "outside_bounds": [],
    "stubs": [],
    "assumptions": [],
}


def token_inst(n, op):
    b = n + 2
    return mk("c20_%s_len%d" % (("token", "atom")[op], n), "C20/c20_token.c", U,
              {"LEN": n, "OP": op, "NNODES": 1, "NPAIRS": 1, "NSYMS": 1},
              unwind={"skip_ws": b, "parse_symbol": b, "parse_integer_": b + 1, "digit2int": 18,
                      "strchr": 72, "strlcpy": b + 1, "vp_alloc": b + 1, "vp_free": 3,
                      "vp_exact_text": b, "ref_token": b, "check_atom": b, "memcpy": b, "strlen": b},
              extra_cbmc=["--unwindset", "sx_parse_list:0,sx_parse_:1,sx_destroy:1"],
              default_unwind=2, cflags=CF, encoded_units=ENC, replay_units=U,
              hang_is_violation=True, replay_timeout=10)


def instances(tier):
    lens = range(0, 6) if tier == "quick" else range(0, 9)
    return [token_inst(n, op) for n in lens for op in (0, 1)]
