# C20: the s-expression reader inverts printing and fails cleanly on anything else
U = ["src/compat/strlcpy.c"]                      # linked as its own unit (toolchain.h: no libc strlcpy)
ENC = ["src/sx.c", "src/compat/strlcpy.c"]        # sx.c is #included by the harness TU (allocator renamed)
CF = ["-D__NO_CTYPE"]

INFO = {
    "explanation": (
        "src/sx.c is compiled unchanged into the harness translation unit with malloc/calloc/free renamed to a "
        "ledger allocator (static pools in CBMC mode, the real allocator plus counters in replay mode); the text is "
        "an object of exactly LEN octets without terminator, so every read outside s[0..LEN) is a bounds failure. "
        "Oracle: a reference lexer and (for lists) a reference recogniser written from the property text; the "
        "printed form of a tree is its token sequence, so the returned tree is walked and must print to exactly the "
        "reference token sequence. Instance families: "
        "c20_token_lenN: sx_parse_token(s, N, i), all 256 octet values per position, every start i; "
        "c20_atom_lenN: sx_parse(s, N, i) on the same inputs whose first token is not '(' (atoms, blank input, "
        "broken tokens, stray ')'); "
        "c20_list_aA_lenN: sx_parse(s, N, 0) on every text of length N over a small structural alphabet, real "
        "sx_parse_list <-> sx_parse_ recursion bounded per function (unwinding assertions prove the bound), "
        "sx_destroy replaced by its contract; "
        "c20_destroy_step: the real sx_destroy body against that contract for an arbitrary root node with opaque "
        "owned children (structural induction: holds for trees of any size); "
        "LIMIT: the list layer is decided only for texts of length <= 2 (quick) / <= 3 (thorough: 8.1 M SAT "
        "variables, 9.5 min, needs more than 12 GB). The call tree of the two mutually recursive functions is "
        "unrolled exponentially because text positions are symbolic; length 4 was not attempted. Nested lists, "
        "lists with two or more elements and whitespace between two elements need >= 4 octets and are therefore "
        "NOT decided."),
    "bounds": {
        "quick": {"token/atom": "LEN 0..5, all 256 octet values, every start position",
                  "list": "LEN 1..2 over the alphabet ( ) space 1 a, start 0",
                  "destroy": "any root node, children abstracted (inductive step)"},
        "thorough": {"token/atom": "LEN 0..7, all 256 octet values, every start position",
                     "list": "LEN 1..3 over ( ) space 1 a; LEN 1..2 over ( ) space tab 1 a F # x {",
                     "destroy": "as quick"},
    },
    "outside_bounds": [
        "lists in texts longer than 3 octets (quick: 2): nested lists, lists with more than one element, whitespace "
        "between list elements, 'a nested empty list ends the enclosing list' (smallest witness '(())' has 4 octets)",
        "atoms longer than 7 octets (LEN 8: no verdict in 20 min), integers that do not fit 64 bits",
        "sx_parse_string / sx_parse_stringn wrappers (strlen + sx_parse), sx_cxr/sx_pop/sx_append/sx_foreach",
        "allocation failure (the library exits the process)",
    ],
    "stubs": [
        "malloc/calloc/free: ledger allocator of harness/C20/c20_common.h (never fails; fresh malloc memory holds an "
        "arbitrary octet, calloc memory zero)",
        "strchr, memcpy: exact byte loops",
        "isspace/isdigit/isxdigit/tolower: CBMC's C-locale models (-D__NO_CTYPE); replay uses glibc",
        "list instances only: sx_destroy replaced by its contract (proved for the real body by c20_destroy_step)",
    ],
    "assumptions": [
        "lexical grammar = file comment of src/sx.c plus its symbol alphabet: whitespace is C-locale isspace; "
        "delimiters are ( ) whitespace and the end of the text; symbols start with a letter or one of "
        "+%|/_:;.!?$&=*<>~ and continue with those, digits and '-'",
        "left undecided by the property text, every clean behaviour accepted: a NUL octet where a token starts, "
        "continues or must end; a token starting with '-'; the prefix #X",
        "an 'error status' is any status other than SXS_SUCCESS; which error code is not checked",
        "cbmc 6.11 loses stores made through a pointer read from a union member in some encodings (see the "
        "comments in c20_common.h); the pool model avoids the encodings where this was observed, and every witness "
        "and every counterexample is re-executed on the gcc/ASan build",
    ],
}


def _loops(n):
    b = n + 2
    return {"skip_ws": b, "parse_symbol": b, "parse_integer_": b + 1, "digit2int": 18, "strchr": 72,
            "strlcpy": b + 1, "vp_alloc_bytes": b + 1, "vp_free": 18, "vp_index_in": 18, "vp_sym_view": 18,
            "vp_sym_block_size": 18, "vp_canaries_ok": 18,
            "c20_destroy_contract": 2 * n + 2, "vp_exact_text": b, "ref_token": b, "check_atom": b,
            "c20_in_alpha": 12, "ref_expression": b, "c20_atom_is": b, "c20_tree_prints_as": b,
            "harness": b, "memcpy": b, "strlen": b}


def token_inst(n, op):
    # sx_parse_list:0 = the list reader must be unreachable (proved by its recursion unwinding assertion)
    return mk("c20_%s_len%d" % (("token", "atom")[op], n), "C20/c20_token.c", U,
              {"LEN": n, "OP": op, "NNODES": 1, "NPAIRS": 1, "NSYMS": 1},
              unwind=_loops(n), extra_cbmc=["--unwindset", "sx_parse_list:0,sx_parse_:1,sx_destroy:1"],
              default_unwind=2, cflags=CF, encoded_units=ENC, replay_units=U,
              hang_is_violation=True, replay_timeout=10,
              desc="token layer, %s, all octet values, length %d" % (("sx_parse_token", "sx_parse")[op], n))


def list_inst(n, alpha):
    # LEN 3 is the largest feasible length: 554 k SSA steps, 8.1 M variables, 9.5 min with cadical, about 9 GB
    # resident (the 12 GB address-space limit is not enough while the formula is built: mem_gb 34).
    # LEN 4 was not attempted (estimated > 25 M variables).
    big = n >= 3
    return mk("c20_list_a%d_len%d" % (alpha, n), "C20/c20_list.c", U,
              {"LEN": n, "ALPHA_ID": alpha, "NNODES": n + 1, "NPAIRS": n, "NSYMS": n},
              unwind=_loops(n),
              # (--slice-formula would save 15 % but removes the input struct from the witness traces)
              extra_cbmc=["--unwindset", "sx_parse_list:%d,sx_parse_:%d" % (n, n)],
              default_unwind=2, cflags=CF, encoded_units=ENC, replay_units=U, object_bits=12,
              hang_is_violation=True, replay_timeout=10, timeout=3000 if big else 900,
              mem_gb=34 if big else 14,
              desc="list layer, every text of length %d over alphabet %d" % (n, alpha))


def destroy_inst():
    return mk("c20_destroy_step", "C20/c20_destroy.c", U, {"LEN": 3, "NNODES": 3, "NPAIRS": 1, "NSYMS": 1},
              unwind=_loops(3), default_unwind=3, cflags=CF, encoded_units=ENC, replay_units=U,
              hang_is_violation=True, replay_timeout=10,
              desc="sx_destroy body vs. its contract, arbitrary root, opaque owned children")


def instances(tier):
    lens = range(0, 6) if tier == "quick" else range(0, 8)
    # alphabet 1 (with characters that start no token) also in quick: "(#" inside a list (seed C20-E)
    out = [list_inst(2, 0), list_inst(1, 0), list_inst(2, 1)]
    if tier != "quick":
        out = [list_inst(3, 0)] + out + [list_inst(1, 1)]
    out += [destroy_inst()]
    out += [token_inst(n, op) for n in reversed(lens) for op in (0, 1)]
    return out
