# C11: interrupted or failing stores never validate a mixed image silently
U = ["src/persistent-storage.c", "src/crc-16-arc.c"]

KIND_NAMES = {0: "builtin", 1: "crc16", 2: "sum32", 3: "any16", 4: "any32"}

INFO = {
    "explanation": "src/persistent-storage.c is executed symbolically against the C10 medium model (harness/C10/"
                   "c10_common.h) extended by a power-loss budget and a single injected transfer fault. HONEST: on "
                   "ARBITRARY medium content (which subsumes every torn write at every octet) validation by a fresh "
                   "instance succeeds only if the checksum octets equal the configured algorithm over the data octets, "
                   "and reports invalid data otherwise. CRASH: from a valid old image a full or partial store runs on "
                   "a medium that persists only the first k write calls or the first b octets (k, b symbolic); a "
                   "fresh instance then validates and fetches. FAULT: in store->validate->fetch->reset and "
                   "store_part->fetch_part one callback invocation at a symbolic index reports any count different "
                   "from the request after transferring any prefix; the operation it hits must return the I/O error. "
                   "One instance per (data size N, checksum kind, auxiliary buffer size, mode); placement, initial "
                   "value, configuration order, contents, (offset,length), budgets and fault parameters are symbolic.",
    "bounds": {
        "quick": {"N": "1..4 (enumerated)", "aux": "none, 1..N+1 (enumerated; all sizes for the abstract 16-bit "
                  "algorithm, none/half/N+1 for the other kinds)", "kinds": "honest: all five; crash/fault: abstract 16/32 bit "
                  "(+ built-in for full-store crash)", "crash": "write-call budget 0..255, octet budget 0..255",
                  "fault": "one fault, call index 0..63, reported count any 64-bit value != request, transferred prefix any"},
        "thorough": {"N": "1..8 (enumerated)", "aux": "every size for every kind of the mode", "kinds": "as quick",
                     "crash": "as quick", "fault": "as quick"},
    },
    "outside_bounds": ["more than one injected fault per operation sequence", "torn writes that persist a non-prefix subset "
                       "of the octets of one write call (covered for validation only, by HONEST)",
                       "power loss during persistent_reset", "data sizes above the enumerated N",
                       "zero-size auxiliary buffer", "checksum callbacks that are not chunk-compositional"],
    "stubs": ["medium with power-loss budget and single transfer fault (harness/C10/c10_common.h)",
              "abstract / 32-bit-sum checksum callbacks (see C10)", "memcpy/memset byte loops"],
    "assumptions": ["the PersistentStorage object holds arbitrary stale octets before persistent_init (symbolic input)",
                    "checksum on the medium is compared in host (little-endian) representation",
                    "a write call persists its octets in ascending address order (tearing = prefix)",
                    "the interrupted system performs no further persistent writes",
                    "region does not wrap 2^32"],
}


def _unwind(n):
    rmax = 4 + n
    msize = rmax + 4
    return {
        "trivialsum": n + 2, "ufw_crc16_arc": n + 2, "cb_sum32": n + 2, "c10_ref": n + 2,
        "persistent_calculate_checksum": n + 2, "persistent_writen": max(4, n) + 2,
        "memset": n + 3, "memcpy": 6,
        "m_read": rmax + 2, "m_write": rmax + 2,
        "a_match": n + 2, "c10_current": n + 2, "c10_same": n + 2,
        "c10_get_data": n + 2, "c10_put_data": n + 2, "c10_data_is": n + 2, "c10_outside_same": msize + 2,
        "c10_medium_same": msize + 2, "c10_snapshot": msize + 2, "c10_begin": msize + 2,
        "c10_set_stale": 200, "c10_instance": 200,
        "scenario": msize + 2, "harness": max(6, n + 3),
    }


def _grid(tier):
    quick = tier == "quick"
    sizes = range(1, 5) if quick else range(1, 9)
    out = []
    for n in sizes:
        auxs = list(range(0, n + 2))
        sub = sorted(set([0, (n + 1) // 2, n + 1])) if quick else auxs
        for a in auxs:
            out.append(("HONEST", n, 3, a))
            out.append(("CRASHPART", n, 3, a))
            out.append(("FAULTA", n, 3, a))
            out.append(("FAULTB", n, 3, a))
            if a in sub:
                for k in (0, 1, 2, 4):
                    out.append(("HONEST", n, k, a))
                out.append(("CRASHPART", n, 4, a))
                out.append(("FAULTA", n, 4, a))
        # a full store and fetch_part never touch the auxiliary buffer
        for k in (0, 3, 4):
            out.append(("CRASHFULL", n, k, 0))
        out.append(("CRASHFULL", n, 3, (n + 1) // 2))
        out.append(("FAULTB", n, 4, 0))
    return out


def instances(tier):
    out = []
    for (mode, n, k, a) in _grid(tier):
        out.append(mk("c11_%s_n%d_%s_a%d" % (mode.lower(), n, KIND_NAMES[k], a), "C11/c11.c", U,
                      {"MODE_" + mode: None, "VP_DATA_N": n, "VP_KINDS": "0x%xu" % (1 << k), "VP_AUXSET": "0x%xu" % (1 << a)},
                      unwind=_unwind(n), default_unwind=2, fp_removal=True, timeout=1500))
    return out
