# C05: register constraints are an invariant of every checked-operation history
import importlib.util, os
_sp = importlib.util.spec_from_file_location("regs_geom", os.path.join(os.path.dirname(__file__), "regs_geom.py"))
geom = importlib.util.module_from_spec(_sp)
_sp.loader.exec_module(geom)

ENC = ["src/registers/core.c"]
INFO = {
    "explanation": "One-step induction over register_set, register_bit_set, register_bit_clear, register_block_write and "
                   "register_sanitise: per enumerated table geometry, with flags/callbacks/backing kind/register types/"
                   "constraint kinds and 64-bit bounds/defaults/byte order symbolic, the pre-state is an ARBITRARY memory "
                   "image satisfying the invariant (every min/max/range/callback-constrained register decodes and "
                   "satisfies its constraint); one operation with arbitrary operands runs; asserted: invariant holds "
                   "afterwards, refused operations change no word, bit operations change exactly the requested bits of "
                   "unsigned registers and refuse signed/float/mismatched operands. Sanitise: arbitrary corrupted image "
                   "(no invariant assumed) -> SUCCESS, insane registers hold their default, sane ones keep their bits, "
                   "touched marks cleared, invariant re-established. SANITISEANY: no assumption on defaults, constraint "
                   "kinds or write access (runs that abort included): the table flag word is handed back unchanged "
                   "(obligation of the induction used by C01/C03/C05: seed C01-F). Arbitrary pre-state => covers operation sequences of "
                   "any length on these tables.",
    "bounds": {"quick": {"NAREA": 2, "NREG": 3, "AWORDS": 6, "NMAX": 5, "geometries": geom.describe("quick")[:0] + ["see list in C02 evidence; subset g02 g03 g04 g07 (+ g13 for block writes)"]},
               "thorough": {"NAREA": 3, "NREG": 4, "AWORDS": 6, "NMAX": 8, "geometries": "all of C02's thorough list"}},
    "outside_bounds": ["other geometries / larger tables", "sanitise on tables with always-fail constraints, with "
                       "skip-defaults or callback-less areas, or with unacceptable defaults (property restricts the "
                       "sanitise clause to no/min/max/range/callback constraints)",
                       "failing custom callbacks", "2^32 wrap"],
    "stubs": ["memcpy/memset byte loops", "custom area callbacks over a shadow array", "validator callback"],
    "assumptions": ["linked table state constructed from a well-formed description (C04)", "little-endian host",
                    "base case: register_init establishes the invariant for registers in default-loading areas (C04); "
                    "registers of skip-defaults areas start at zero, which the property's 'successfully initialised table' "
                    "wording leaves to the table author"],
}


def instances(tier):
    na, nr, aw = geom.dims(tier)
    nm = 5 if tier == "quick" else 8
    m = max(na, nr)
    UW = {"memcpy": 2 * max(4, nm) + 2, "memset": 10, "vp_build": m + 3, "vp_desc_wellformed": m + 2,
          "ref_area_of": na + 2, "ref_layout_ok": m + 2, "vp_link_direct": m + 2, "ref_area_first": nr + 2,
          "vp_custom_read": aw + 1, "vp_custom_write": aw + 1, "vp_snap": max(aw, nr) + 2, "vp_mem_equal": aw + 2,
          "harness": max(aw, nm, m, 8) + 3, "ref_decode": 10, "ref_entry_octets": 10, "inv_holds": nr + 2,
          "ra_writeable": na + 2, "ra_malformed_write": nr + 2, "ra_find_area_by_addr": na + 2,
          "register_block_touches_hole": nm + 2, "register_block_write_unsafe": nm + 2,
          "reg_taint_in_range": nr + 2, "register_sanitise": nr + 2}
    gs = geom.geometries(tier)
    if tier == "quick":
        gs = [g for g in gs if g[0] in ("g02", "g03", "g04", "g07", "g13")]
    out = []
    for g in gs:
        for op in ("SET", "BITSET", "BITCLEAR", "BLOCKWRITE", "SANITISE", "SANITISEANY"):
            if tier == "quick" and op == "BLOCKWRITE" and g[0] not in ("g02", "g04", "g13"):
                continue
            if tier == "quick" and g[0] == "g13" and op != "BLOCKWRITE":
                continue
            if tier == "quick" and op == "SANITISEANY" and g[0] not in ("g02", "g07"):
                continue
            d = {"NAREA": na, "NREG": nr, "AWORDS": aw, "NMAX": (3 if (tier == "quick" and op == "BLOCKWRITE") else nm),
                 "OP_" + op: None}
            d.update(geom.defines(g))
            out.append(mk("c05_%s_%s" % (op.lower(), g[0]), "C05/c05.c", [], d, unwind=UW, default_unwind=3,
                          encoded_units=ENC, fp_removal=True, timeout=3000, object_bits=12))
    return out
