# C19: ring buffer is a bounded FIFO (optionally overwriting) with faithful iterators
U8 = ["src/octet-ring.c", "src/ring-buffer-iter.c"]   # shipped uint8_t instantiation
U16 = ["src/ring-buffer-iter.c"]                      # uint16_t instantiation made by the harness from the same macros

INFO = {
    "explanation": "include/ufw/ring-buffer.h + ring-buffer-iter.h as instantiated by src/octet-ring.c (and, for "
                   "uint16_t, by the harness with the same macros) and src/ring-buffer-iter.c, executed symbolically. "
                   "step: one-step induction - from ANY state satisfying the representation invariant RI "
                   "(1 <= datasize <= CAP, head < datasize, tail <= datasize; arbitrary slot contents, arbitrary mode) "
                   "one of init/put/get/clear/override_if_full/queries runs on the real code; the abstraction of the "
                   "post-state (slots tail..head cyclically, empty iff tail == datasize) must equal a queue model applied "
                   "to the abstraction of the pre-state, RI must hold again, size/empty/full must report the model, "
                   "nothing outside the storage may be written. iter: from ANY RI state both iterators are walked as the "
                   "repository's test does (iter; !done; inspect; advance) and must yield the abstraction in order / "
                   "reversed in exactly size steps. reach: for ANY RI state (fields and all slot contents) a constructed "
                   "history of real operations starting at init() produces exactly that state, so RI admits no "
                   "unreachable state and init() establishes RI. hist: black box, one instance per capacity 1..CAP - init() then NOPS arbitrary operations "
                   "compared with the queue model through return values and iterators only (independent of RI and of the "
                   "abstraction function). step+reach together cover operation histories of any length for the stated "
                   "capacities.",
    "bounds": {"quick": {"CAP": "capacity 1..4 (symbolic)", "element": "uint8_t and uint16_t, all values",
                         "hist_ops": 8},
               "thorough": {"CAP": "capacity 1..8 (symbolic)", "element": "uint8_t and uint16_t, all values",
                            "hist_ops": 12}},
    "outside_bounds": ["capacities above CAP", "capacity 0 (put in override mode divides by zero there; the property's "
                       "quantifier starts at capacity 1)", "iterator modes other than the two enumerators",
                       "modifying the buffer while an iterator is in use", "element types other than uint8_t/uint16_t"],
    "stubs": [],
    "assumptions": ["step/iter: pre-state satisfies RI (shown reachable-only and established by init in 'reach', "
                    "shown inductive in 'step')",
                    "hist: the instance object holds arbitrary field values before init(); a buffer whose history contains no "
                    "override-mode change drops on full (the property names override mode as the result of a mode change)"],
}


def instances(tier):
    cap = 4 if tier == "quick" else 8
    nops = 8 if tier == "quick" else 12
    out = []
    for tag, units, d in (("u8", U8, {}), ("u16", U16, {"C19_U16": None})):
        def D(mode, **kw):
            x = {mode: None, "CAP": cap}
            x.update(d)
            x.update(kw)
            return x
        uw = {"harness": cap + 4}
        out += [
            mk("c19_step_%s_cap%d" % (tag, cap), "C19/c19.c", units, D("MODE_STEP"),
               unwind=uw, default_unwind=cap + 2, no_models=True),
            mk("c19_iter_%s_cap%d" % (tag, cap), "C19/c19.c", units, D("MODE_ITER"),
               unwind=uw, default_unwind=cap + 3, no_models=True),
            mk("c19_reach_%s_cap%d" % (tag, cap), "C19/c19.c", units, D("MODE_REACH"),
               unwind=uw, default_unwind=cap + 2, no_models=True),
        ]
        # black-box histories: capacity is a compile-time constant here (symbolic capacity x 12 operations does
        # not finish: measured > 20 min at CAP 8); every capacity 1..CAP gets its own instance
        for c in range(1, cap + 1):
            n = max(nops, c + 4)
            x = {"MODE_HIST": None, "HIST_FIXED_CAP": None, "CAP": c, "NOPS": n}
            x.update(d)
            out.append(mk("c19_hist_%s_cap%d_n%d" % (tag, c, n), "C19/c19.c", units, x,
                          unwind={"harness": max(n, c + 2) + 2}, default_unwind=c + 3, no_models=True))
    return out
